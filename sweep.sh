#!/bin/sh
# usage: ./sweep.sh <tier> "<seeds>" [ids...]   -- silence sweep on the unchanged tree: runs every check at several seeds
# prints one summary line per run plus any VIOLATION / CHECK-BROKEN lines. Not a registered check.
tier="$1"; seeds="$2"; shift 2
ids="${*:-C01 C02 C03 C04 C05 C06 C07 C08 C09 C10 C11 C12 C13 C14 C15 C16 C17 C18 C19}"
cd "$(dirname "$0")"
[ -x target/harness/release/vh ] || ./setup.sh >/dev/null 2>&1
for s in $seeds; do for id in $ids; do
  VERIF_SEED=$s ./check $id --tier $tier 2>&1 | grep -E "^($id |VIOLATION|  signature|CHECK-BROKEN|BUILD-FAILED|HARNESS-ERROR|NOTE)"
done; done
echo sweep-done
