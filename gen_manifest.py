#!/usr/bin/env python3
"""Regenerates MANIFEST.json from the table below (kept in one place so that it stays valid)."""
import json, subprocess

CHECKS = {}  # filled below: id -> (technique, level text, level_note, design_ref)

def add(pid, technique, text, note):
    CHECKS[pid] = (technique, text, note)

add("C01", "reference-model monitor at the API boundary: get_info vs independent exhaustive/memoised best response over generated, structured and exhaustively enumerated games",
    "Held on every (game, profile) execution observed: hundreds of thousands of generated games per run plus every valid micro tree up to a bound, each judged by an oracle that shares no code with cfr. Exploration, not proof: it says nothing about tree shapes the generators cannot produce.",
    "Trusts the harness evaluator O1 (cross-checked against brute-force enumeration on each small game) and the stated input bounds.")

NOT_APPLICABLE = []

def main():
    hooks = subprocess.run(["git", "-C", "/repo", "log", "--format=%H %s"], stdout=subprocess.PIPE, text=True).stdout.splitlines()
    hook_commits = [l.split()[0] for l in hooks if " verif-hook:" in l]
    man = {
        "version": 1,
        "setup_cmd": "./setup.sh",
        "hooks": {
            "guard": "cargo feature `verif` (off by default)",
            "enable": "harness depends on cfr with features=[\"verif\"] (cargo build --features verif)",
            "baseline_off_cmd": "cd /repo && cargo test --workspace --no-fail-fast --offline",
            "source_commits": hook_commits,
            "add_only": True,
        },
        "engines": [
            {"name": "vh", "path": "harness/", "serves_properties": sorted(CHECKS),
             "kind_free_text": "Rust harness: workload generators, independent oracles and offline monitors over hook event logs; driven by ./check (python3) which supervises worker processes"},
        ],
        "checks": [],
        "not_applicable": NOT_APPLICABLE,
        "notes": "All checks: ./check <ID> [--tier quick|thorough]; VERIF_SEED selects the workload stream. Known findings: known_findings.json. Design: DESIGN.md.",
    }
    for pid in sorted(CHECKS):
        technique, text, note = CHECKS[pid]
        man["checks"].append({
            "property_id": pid,
            "quick_cmd": "./check %s --tier quick" % pid,
            "thorough_cmd": "./check %s --tier thorough" % pid,
            "evidence_file": "evidence/%s.json" % pid,
            "replay_cmd_template": "./check %s --replay {path}" % pid,
            "engine": "vh",
            "level_claimed": {"category": "exploration", "text": text, "design_ref": "DESIGN.md section 6, %s" % pid},
            "level_note": note,
            "technique": technique,
        })
    with open("/verif/MANIFEST.json", "w") as f:
        json.dump(man, f, indent=1)

if __name__ == "__main__":
    main()
