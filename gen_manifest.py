#!/usr/bin/env python3
"""Regenerates MANIFEST.json from the table below (kept in one place so that it stays valid)."""
import json, subprocess

CHECKS = {}  # filled below: id -> (technique, level text, level_note, design_ref)

def add(pid, technique, text, note):
    CHECKS[pid] = (technique, text, note)

add("C01", "reference-model monitor at the API boundary: get_info vs independent exhaustive/memoised best response over generated, structured and exhaustively enumerated games, plus a history monitor (get_info/clone/truncate/get_info on one value, judged against the profile it holds now)",
    "Held on every (game, profile) execution observed: hundreds of thousands of generated games per run plus every valid micro tree up to a bound, each judged by an oracle that shares no code with cfr. Exploration, not proof: it says nothing about tree shapes the generators cannot produce.",
    "Trusts the harness evaluator O1 (cross-checked against brute-force enumeration on each small game) and the stated input bounds.")
add("C02", "reference-model monitor: returned total regret bound of solve(Full, vanilla) vs true regret from the independent best-response oracle O1, over games x budgets x thresholds x thread counts",
    "Held on every observed solve: the returned total bound dominated the independently computed true regret (tolerance 1e-9 x payoff range), bounds were non-negative and max-consistent, and early-stopped runs really were below the threshold. Exploration over generated games and configurations.",
    "Trusts O1; only the total bound is compared (the per-player comparison is not a theorem and not what the property states).")
add("C03", "envelope monitor on measured true regret and returned bounds of solve(Full) against the finite-T CFR rate computed by the harness (D, N, A from its own tree)",
    "Held on every observed solve: vanilla per-player bounds stayed below 2*D*N*sqrt(A)/sqrt(T) and the true regret of every preset stayed below the stated 6x envelope at every budget tried. 'Tends to zero' is restated as this finite-T envelope; no finite run decides the limit itself.",
    "Trusts O1 and the harness's own count of infosets/actions/payoff range; unbounded eventuality restated as bounded envelope (DESIGN.md section 9).")
add("C04", "envelope monitor with replication: true regret (O1) of Sampled/External outputs vs D*N*sqrt(A)/sqrt(T), exceedance must replicate on 11 of 21 fresh seeded sampling histories; aggregate medians over the run",
    "Held on the observed sampling histories: no (game, configuration) exceeded the convergence envelope reproducibly, and the median regret across games fell far below the T=100 level at T=3000. Statistical statement with replication; one known finding (a chance infoset repeated on one path) is reported as KNOWN-FINDING.",
    "Trusts O1 and hook H2 (seeded sampling feeds the production sampler from a deterministic RNG); the probabilistic statement is read as 'replicates on a majority of 21 fresh seeds'.")
add("C05", "totality monitor around every solve call in supervised worker processes: panic/abort/deadlock(no-CPU-progress)/livelock(CPU-time)/error-kind detection and well-formedness of the dense result (hook H1), over the full configuration grid incl. degenerate games and contended infosets; fault injection (thread creation made to fail via RLIMIT_AS in fresh processes); deep games (depth 3000-40000) solved with one thread and with several in own processes on a 4 GiB caller stack; thorough tier adds schedule exploration under Miri (deadlock/data-race/panic oracle)",
    "Held on every observed call: no panic, abort or deadlock witness; only the two documented error kinds and never with one thread; every returned probability vector was a distribution and every bound finite and non-negative (infinite only with zero iterations). One known finding: deep games abort with a stack overflow when solved with more than one thread (known_findings.json).",
    "Dense vectors are read through hook H1 (public readers hide NaN/negative entries); deadlock is restated as bounded progress (no CPU consumed for 25 s inside a solve).")
add("C06", "differential k-thread vs 1-thread runs of solve(Full) under jitter hooks (H5, incl. jitter while an infoset lock is held), oversubscription, contention workloads and repetition + offline O3 step checker with exactly-once visit monitor on every k-thread event log; deadlock witness by no-CPU-progress; thorough tier adds schedule exploration under Miri with the same monitors",
    "Held on every observed k-thread run and schedule: output equal to the 1-thread run within rounding (margin/conditioning rule for regret-matching discontinuities) and every logged transition was the documented one with each decision node processed exactly once per pass. Schedules explored are those the pool produced; their number is measured and reported.",
    "Trusts hooks H3-H5 (snapshots at quiescent points, jitter only between critical sections) and the O3 specification.")
add("C07", "differential k-thread vs 1-thread runs of solve(Sampled|External) under pinned sampling decisions (hook H2 seeded/forced), jitter and contention workloads + O3 step checker with exactly-once visit and one-draw-per-infoset-per-pass monitors; thorough tier adds schedule exploration under Miri",
    "Held on every observed k-thread run: identical sampled tree, outputs equal within rounding to the 1-thread run, no worker panicked on a contended infoset, every decision node on the sampled tree processed exactly once.",
    "Trusts hook H2 (seeded/forced sampling is a pure function of site, infoset and pass) and H3-H5.")
add("C08", "offline trace-specification checker (O3 step checker) over per-iteration state snapshots, draws and visits logged by hooks H1-H4, for all methods, parameter tuples incl. 0 and +-inf, presets vs documented tuples",
    "Held on every logged solve: each traversal increment, discount, regret-matching step (as a relation over allowed tie-breaks), average weighting, bound and termination step was the documented one, starting each step from the library's own logged state so errors cannot compound.",
    "Trusts the O3 specification (written from the papers and RegretParams docs; shares no code with the solvers) and hook snapshots.")
add("C09", "differential monitor: thresholded run must be bit-identical (1 thread) to the budget-t* run of the same code, thresholds placed at/next-above/next-below each observed bound; pass count from hook H3 as second witness",
    "Held on every observed (game, method, params, budget, threshold): the solve stopped exactly at the first iteration whose max bound was strictly below the threshold (or at the budget), incl. NaN/negative/infinite thresholds and the unbounded-budget idiom.",
    "Sampled methods use hook H2 seeded sampling so that the budget-t runs share sampling decisions; k>1 compared within rounding with a don't-care band at the threshold.")
add("C10", "event-log checker over hook H2/H3/H4 logs + direct queries of the production samplers (categorical sampler with chosen variates: interval membership; cached chance sampler: 2e5-2e6 fresh seeded draws): one draw per (infoset, pass), presented weights = declared/current distribution, no zero-probability outcome drawn, Hoeffding/Azuma frequency bounds, serial and cross-infoset independence",
    "Held on every observed draw and pass: the sampler returned the outcome whose cumulative interval contains the variate, every infoset was drawn at most once per pass and redrawn in the next, all nodes of a chance infoset followed the shared outcome, presented weights matched declared chance weights / the opponent's current strategy, and empirical frequencies stayed inside 1e-12-tail concentration bounds.",
    "Trusts hooks H2-H4; statistical bounds have per-test false-alarm probability 1e-12.")
add("C11", "reference-model monitor: from_root verdict vs independent rule-set validator O2 over valid generated trees, every documented rule violated once (G4 mutations), and bounded-exhaustive micro trees; accepted trees cross-checked by O1/solve",
    "Held on every observed tree: accepted iff the reference validator finds no documented rule violated, the reported error kind is one of the violated rules, no panic; one benign acceptance is a listed known finding.",
    "Trusts O2 (order-independent definitions of the documented rules, with a don't-care band for nearly-equal chance probabilities).")
add("C12", "metamorphic monitor: original vs transformed presentation (weight scaling, degenerate-node padding, renaming, payoff scaling/shift, player swap) compared through the name bijection, bit-exact where arithmetic is identical, else within measured-conditioning tolerance",
    "Held on every observed (game, transformation): evaluation and deterministic solver output were invariant (bit-identical for exact transformations; within rounding otherwise, where the tolerance is derived from the logged traces' regret-matching margins and average-strategy conditioning).",
    "Trusts the harness's name bijection and hook H3 traces for the margin/conditioning rule.")
add("C13", "reference-model monitor of as_named() vs independent named-view spec O4 + iterator-contract monitor (len() before every next()) + from_named round trip",
    "Held on every observed (game, profile): each infoset listed exactly once, exactly the positive-probability actions summing to 1, single-action infosets as (action, 1), exact-size iterators correct at every prefix, and from_named(as_named(s)) == s.",
    "Expectations are built from dense vectors via hook H1.")
add("C14", "reference-model monitor of from_named/from_named_eq vs 40-line import spec O4 over mutated named strategies (duplicates, missing/extra infosets, illegal actions, hostile weights) + differential between the two import paths",
    "Held on every observed candidate: Ok iff the reference finds no violated rule, error kind among the violated rules, probabilities = weight/total, both import paths agree; one overflow corner is a listed known finding.",
    "Trusts O4.")
add("C15", "end-to-end monitor of the shipped (hook-free) cfr binary on generated JSON and Gambit files: printed strategies re-evaluated on the harness's own semantic tree by O5/O1 and compared with every printed number",
    "Held on every observed run of the binary: exit 0, well-formed JSON, strategies are distributions over the file's names, printed utilities and regrets equal the independent evaluation of the printed strategies for each player (constant-sum offsets included).",
    "Trusts the harness's file writers and evaluator; the file is never read back through cfr's parsers.")
add("C16", "differential monitor: shipped cfr binary vs library solve with the parameters the help text assigns to each option (bit-exact for -m full -p 1), input/output path and format equivalences, behavioural signatures for sampled methods, clip rule via O1",
    "Held on every observed invocation: each option value produced the library result for the documented meaning; stdin/-i, stdout/-o, auto/explicit format and JSON/Gambit encodings agreed; sampled methods showed their distinguishing signatures.",
    "Library side runs with hooks compiled in but disabled (numerics unchanged); sampled methods in the hook-free binary are judged by behavioural signatures, not exact values.")
add("C17", "end-to-end negative monitor of the shipped binary: systematic corruptions of valid files (truncation, field/type damage, non-finite/non-positive numbers, player count, constant-sum perturbation, name clashes, every contract violation) classified by O2/O5; exit status, stdout emptiness and diagnostic category observed",
    "Held on every observed corrupted input: non-zero exit, no solution object on stdout or in the -o file, a diagnostic of the documented category, no crash by signal; inputs whose validity the documentation does not settle are counted as don't-care.",
    "Trusts the harness's classification of each corruption; 0.5x-tolerance perturbations are required to be accepted.")
add("C18", "reference-model monitor of truncate(h) on dense vectors (hook H1) vs set/renormalisation spec, thresholds at and around every distinct probability, NaN and +-inf; idempotence; result re-read through as_named/get_info",
    "Held on every observed (profile, threshold): result is a valid profile, survivors are exactly the actions above the threshold renormalised (an infoset with no survivor is left valid), thresholds below every positive probability change nothing, truncation is idempotent outside a 1e-12 band.",
    "Dense vectors read via hook H1.")
add("C19", "algebraic-law monitor at the API boundary: range, identity, positivity, symmetry and panic conditions of distance() over generated profile pairs and exponents, panics observed via catch_unwind in workers",
    "Held on every observed (pair, p): components in [0,1] for p>=1, zero on identical profiles, positive on different ones, symmetric, panics exactly for different games / non-positive p; the p<1 range overflow is a listed known finding.",
    "NaN exponent grouped with the documented non-positive case.")

NOT_APPLICABLE = []

def main():
    hooks = subprocess.run(["git", "-C", "/repo", "log", "--format=%H %s"], stdout=subprocess.PIPE, text=True).stdout.splitlines()
    hook_commits = [l.split()[0] for l in hooks if " verif-hook:" in l]
    man = {
        "version": 1,
        "setup_cmd": "./setup.sh",
        "hooks": {
            "guard": "cargo feature `verif` (off by default)",
            "enable": "harness depends on cfr with features=[\"verif\"] (cargo build --features verif)",
            "baseline_off_cmd": "cd /repo && cargo test --workspace --no-fail-fast --offline",
            "source_commits": hook_commits,
            "add_only": True,
        },
        "engines": [
            {"name": "vh", "path": "harness/", "serves_properties": sorted(CHECKS),
             "kind_free_text": "Rust harness: workload generators, independent oracles and offline monitors over hook event logs; driven by ./check (python3) which supervises worker processes"},
        ],
        "checks": [],
        "not_applicable": NOT_APPLICABLE,
        "notes": "All checks: ./check <ID> [--tier quick|thorough]; VERIF_SEED selects the workload stream. Known findings: known_findings.json. Design: DESIGN.md.",
    }
    for pid in sorted(CHECKS):
        technique, text, note = CHECKS[pid]
        man["checks"].append({
            "property_id": pid,
            "quick_cmd": "./check %s --tier quick" % pid,
            "thorough_cmd": "./check %s --tier thorough" % pid,
            "evidence_file": "evidence/%s.json" % pid,
            "replay_cmd_template": "./check %s --replay {path}" % pid,
            "engine": "vh",
            "level_claimed": {"category": "exploration", "text": text, "design_ref": "DESIGN.md section 6, %s" % pid},
            "level_note": note,
            "technique": technique,
        })
    with open("/verif/MANIFEST.json", "w") as f:
        json.dump(man, f, indent=1)

if __name__ == "__main__":
    main()
