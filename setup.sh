#!/bin/sh
# MANIFEST.setup_cmd: build the harness (hooks on) and the shipped cfr binary (hooks off), offline.
set -e
cd "$(dirname "$0")"
unset RUST_BACKTRACE
export CARGO_NET_OFFLINE=true
mkdir -p target evidence work replays
cargo build --release --offline --manifest-path harness/Cargo.toml --target-dir target/harness
cargo build --release --offline --manifest-path /repo/Cargo.toml --bin cfr --target-dir target/cli
echo setup-ok
