pub mod bridge;
pub mod gen;
pub mod oracle;
pub mod props;
pub mod report;
pub mod rng;
pub mod tree;
pub mod validate;
