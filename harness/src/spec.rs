//! O3: executable specification of (discounted, chance-sampled, external-sampled) CFR used as a
//! *step checker* over the hook logs (H1-H4). Every transition is recomputed from the library's own
//! logged state, so errors cannot compound and ties cannot make the reference diverge.
//!
//! Written from the CFR / MCCFR / DCFR papers and the RegretParams documentation; it walks the
//! harness tree (`Flat`), never cfr's compact tree, and shares no code with the solvers.
use crate::tree::{FNode, Flat};
use cfr::verif::{Dump, DumpNode, Event, InfoState};
use std::collections::HashMap;

#[derive(Debug, Clone)]
pub struct Align {
    /// per player: dump infoset index -> flat infoset id
    pub info: [Vec<usize>; 2],
    /// per player: flat infoset id -> dump index (None for single-action infosets)
    pub info_rev: [Vec<Option<usize>>; 2],
    /// dump chance infoset -> flat chance id
    pub chance: Vec<usize>,
    pub chance_rev: Vec<Option<usize>>,
    /// address -> flat node id
    pub addr: HashMap<usize, usize>,
    /// flat node id -> address (multi-child nodes only)
    pub addr_rev: Vec<usize>,
}

/// H1 alignment by parallel traversal; Err describes the first structural difference between the
/// harness tree and the compact tree
pub fn align(flat: &Flat, dump: &Dump) -> Result<Align, String> {
    let mut al = Align {
        info: [vec![usize::MAX; dump.num_actions[0].len()], vec![usize::MAX; dump.num_actions[1].len()]],
        info_rev: [vec![None; flat.info_names[0].len()], vec![None; flat.info_names[1].len()]],
        chance: vec![usize::MAX; dump.chance_probs.len()],
        chance_rev: vec![None; flat.chance_names.len()],
        addr: HashMap::new(),
        addr_rev: vec![0; flat.nodes.len()],
    };
    fn skip(flat: &Flat, mut id: usize) -> usize {
        loop {
            match &flat.nodes[id] {
                FNode::Chance(_, kids) if kids.len() == 1 => id = kids[0],
                FNode::Player(_, _, kids) if kids.len() == 1 => id = kids[0],
                _ => return id,
            }
        }
    }
    fn rec(flat: &Flat, dump: &Dump, al: &mut Align, id: usize, d: &DumpNode) -> Result<(), String> {
        let id = skip(flat, id);
        match (&flat.nodes[id], d) {
            (FNode::Term(p), DumpNode::Terminal { payoff }) => {
                if p.to_bits() != payoff.to_bits() && !(*p == 0.0 && *payoff == 0.0) {
                    return Err(format!("terminal payoff {} became {}", p, payoff));
                }
                Ok(())
            }
            (FNode::Chance(cid, kids), DumpNode::Chance { addr, infoset, children }) => {
                if kids.len() != children.len() {
                    return Err(format!("chance node with {} outcomes became one with {}", kids.len(), children.len()));
                }
                if *infoset >= al.chance.len() {
                    return Err("chance infoset index out of range".into());
                }
                if al.chance[*infoset] == usize::MAX {
                    al.chance[*infoset] = *cid;
                } else if al.chance[*infoset] != *cid {
                    return Err("two different chance infosets share one compact chance infoset".into());
                }
                match al.chance_rev[*cid] {
                    None => al.chance_rev[*cid] = Some(*infoset),
                    Some(x) if x == *infoset => {}
                    _ => return Err("one chance infoset split over two compact chance infosets".into()),
                }
                let probs = &dump.chance_probs[*infoset];
                if probs.len() != kids.len() {
                    return Err("chance infoset probability table has the wrong length".into());
                }
                al.addr.insert(*addr, id);
                al.addr_rev[id] = *addr;
                for (k, c) in kids.iter().zip(children.iter()) {
                    rec(flat, dump, al, *k, c)?;
                }
                Ok(())
            }
            (FNode::Player(p, iid, kids), DumpNode::Player { addr, player, infoset, children }) => {
                if *p != *player as usize {
                    return Err("decision node assigned to the wrong player".into());
                }
                if kids.len() != children.len() {
                    return Err(format!("decision node with {} actions became one with {}", kids.len(), children.len()));
                }
                if *infoset >= al.info[*p].len() {
                    return Err("infoset index out of range".into());
                }
                if al.info[*p][*infoset] == usize::MAX {
                    al.info[*p][*infoset] = *iid;
                } else if al.info[*p][*infoset] != *iid {
                    return Err("two different infosets share one compact infoset".into());
                }
                match al.info_rev[*p][*iid] {
                    None => al.info_rev[*p][*iid] = Some(*infoset),
                    Some(x) if x == *infoset => {}
                    _ => return Err("one infoset split over two compact infosets".into()),
                }
                if dump.num_actions[*p][*infoset] != kids.len() {
                    return Err("infoset action count differs".into());
                }
                al.addr.insert(*addr, id);
                al.addr_rev[id] = *addr;
                for (k, c) in kids.iter().zip(children.iter()) {
                    rec(flat, dump, al, *k, c)?;
                }
                Ok(())
            }
            (a, b) => Err(format!("node kind differs: harness {:?} vs compact {:?}", std::mem::discriminant(a), std::mem::discriminant(b))),
        }
    }
    rec(flat, dump, &mut al, 0, &dump.root)?;
    for (i, probs) in dump.chance_probs.iter().enumerate() {
        if al.chance[i] != usize::MAX {
            let want = &flat.chance_probs[al.chance[i]];
            for (a, b) in probs.iter().zip(want.iter()) {
                if (a - b).abs() > 1e-9 * a.max(*b) {
                    return Err(format!("chance infoset probabilities {:?} differ from declared normalised weights {:?}", probs, want));
                }
            }
        }
    }
    Ok(al)
}

#[derive(Clone, Copy, Debug, PartialEq)]
pub enum Method {
    Full,
    Sampled,
    External,
}

impl Method {
    pub fn of(m: cfr::SolveMethod) -> Method {
        match m {
            cfr::SolveMethod::Full => Method::Full,
            cfr::SolveMethod::Sampled => Method::Sampled,
            _ => Method::External,
        }
    }
}

/// One traversal as logged
#[derive(Debug, Default, Clone)]
pub struct PassLog {
    pub pass: u64,
    pub iteration: u64,
    pub phase: u8,
    /// (who, dump infoset) -> (weights presented, result); who = 2 for chance
    pub draws: HashMap<(u8, usize), (Vec<f64>, usize)>,
    pub draw_count: usize,
    pub duplicate_draw: Option<(u8, usize)>,
    /// (role, player, dump infoset, addr, thread)
    pub visits: Vec<(u8, u8, usize, usize, usize)>,
    pub pre: [Option<Vec<InfoState>>; 2],
    pub post: [Option<Vec<InfoState>>; 2],
    pub bound: Option<[f64; 2]>,
}

pub fn group(events: &[Event]) -> Result<Vec<PassLog>, String> {
    let mut out: Vec<PassLog> = Vec::new();
    for e in events {
        match e {
            Event::Pass { pass, iteration, phase } => {
                if *pass as usize != out.len() + 1 {
                    return Err(format!("pass numbers not consecutive: {} after {}", pass, out.len()));
                }
                out.push(PassLog { pass: *pass, iteration: *iteration, phase: *phase, ..Default::default() });
            }
            Event::Draw { who, infoset, pass, weights, result, .. } => {
                let Some(pl) = out.get_mut((*pass as usize).wrapping_sub(1)) else {
                    return Err("draw outside any pass".into());
                };
                pl.draw_count += 1;
                if pl.draws.insert((*who, *infoset), (weights.clone(), *result)).is_some() {
                    pl.duplicate_draw = Some((*who, *infoset));
                }
            }
            Event::Visit { role, player, infoset, node, pass, thread } => {
                let Some(pl) = out.get_mut((*pass as usize).wrapping_sub(1)) else {
                    return Err("visit outside any pass".into());
                };
                pl.visits.push((*role, *player, *infoset, *node, *thread));
            }
            Event::State { pass, stage, player, infosets } => {
                let Some(pl) = out.get_mut((*pass as usize).wrapping_sub(1)) else {
                    return Err("state outside any pass".into());
                };
                let slot = if *stage == 0 { &mut pl.pre } else { &mut pl.post };
                slot[*player as usize] = Some(infosets.clone());
            }
            Event::Bound { pass, regs } => {
                let Some(pl) = out.get_mut((*pass as usize).wrapping_sub(1)) else {
                    return Err("bound outside any pass".into());
                };
                pl.bound = Some(*regs);
            }
        }
    }
    Ok(out)
}

#[derive(Debug, Clone, Copy)]
pub struct Params {
    pub alpha: f64,
    pub beta: f64,
    pub gamma: f64,
    pub weight: f64,
}

/// t^x / (t^x + 1) with the documented limits, computed as 1/(1+exp(-x ln t))
pub fn discount(t: u64, x: f64) -> f64 {
    if x == f64::NEG_INFINITY {
        0.0
    } else if x == f64::INFINITY {
        1.0
    } else if x == 0.0 {
        0.5
    } else {
        1.0 / (1.0 + (-x * (t as f64).ln()).exp())
    }
}

#[derive(Debug, Default, Clone)]
pub struct Stats {
    pub passes: u64,
    pub infoset_transitions: u64,
    pub visits_checked: u64,
    pub draws_checked: u64,
    pub softmax_steps: u64,
    pub argmax_steps: u64,
    pub uniform_steps: u64,
    pub proportional_steps: u64,
    /// smallest relative distance of a regret-matching decision from its discontinuity
    pub min_margin: f64,
    pub max_rel_err: f64,
    /// per player and dump infoset: conditioning of the returned (normalised) average strategy =
    /// (total iteration weight x nodes of the infoset) / (accumulated mass of the infoset), both in
    /// the library's own scale; infinite when nothing was accumulated (uniform fallback). An
    /// infoset that its owner almost never reaches has a huge value: rounding noise in the reach
    /// is amplified by this factor in the returned strategy.
    pub avg_cond: [Vec<f64>; 2],
}

pub struct Checker<'a> {
    pub flat: &'a Flat,
    pub al: &'a Align,
    pub method: Method,
    pub par: Params,
    pub scale: f64,
    pub stats: Stats,
    /// check visits (needs LOG_VISIT)
    pub with_visits: bool,
    /// shadow of the cumulative strategy of an infoset that is reached with probability one in
    /// every accumulation batch (same discounting as the library applies), per player
    unit_mass: [f64; 2],
}

type Fail = (String, String);

fn fail<T>(sig: &str, msg: String) -> Result<T, Fail> {
    Err((sig.to_string(), msg))
}

struct Walk<'a> {
    flat: &'a Flat,
    al: &'a Align,
    /// current strategies by player and dump infoset
    strat: [&'a [InfoState]; 2],
    pass: &'a PassLog,
    r_inc: [Vec<Vec<f64>>; 2],
    s_inc: [Vec<Vec<f64>>; 2],
    /// expected visits: (role, flat node)
    visits: Vec<(u8, usize)>,
    used_draws: HashMap<(u8, usize), bool>,
    err: Option<Fail>,
}

impl Walk<'_> {
    fn sigma(&self, p: usize, iid: usize) -> Option<(usize, &[f64])> {
        let di = self.al.info_rev[p][iid]?;
        Some((di, &self.strat[p][di].strat))
    }

    fn chance_draw(&mut self, cid: usize, n: usize) -> Option<usize> {
        let Some(dc) = self.al.chance_rev[cid] else {
            self.err = Some(("spec:unaligned-chance".into(), "chance infoset missing from compact tree".into()));
            return None;
        };
        match self.pass.draws.get(&(2, dc)) {
            Some((w, res)) if *res < n => {
                if w.get(*res).map_or(false, |p| *p == 0.0) {
                    self.err = Some((
                        "draw:zero-probability-outcome".into(),
                        format!("pass {}: chance infoset {} drew outcome {} whose presented probability is exactly 0 (weights {:?})", self.pass.pass, dc, res, w),
                    ));
                    return None;
                }
                self.used_draws.insert((2, dc), true);
                Some(*res)
            }
            Some((_, res)) => {
                self.err = Some(("draw:out-of-range".into(), format!("chance draw {} for an infoset with {} outcomes", res, n)));
                None
            }
            None => {
                self.err = Some((
                    "draw:missing-chance-draw".into(),
                    format!("pass {}: the traversal reaches chance infoset {} but no draw was made for it", self.pass.pass, dc),
                ));
                None
            }
        }
    }

    /// unsampled / chance sampled traversal; returns player one's value
    fn vanilla(&mut self, id: usize, p_chance: f64, reach: [f64; 2], sampled: bool) -> f64 {
        if self.err.is_some() {
            return 0.0;
        }
        match &self.flat.nodes[id] {
            FNode::Term(p) => *p,
            FNode::Chance(cid, kids) => {
                if kids.len() == 1 {
                    return self.vanilla(kids[0], p_chance, reach, sampled);
                }
                if sampled {
                    let Some(k) = self.chance_draw(*cid, kids.len()) else { return 0.0 };
                    self.vanilla(kids[k], p_chance, reach, sampled)
                } else {
                    let mut v = 0.0;
                    for (k, kid) in kids.iter().enumerate() {
                        let pr = self.flat.chance_probs[*cid][k];
                        v += pr * self.vanilla(*kid, p_chance * pr, reach, sampled);
                    }
                    v
                }
            }
            FNode::Player(p, iid, kids) => {
                if kids.len() == 1 {
                    return self.vanilla(kids[0], p_chance, reach, sampled);
                }
                let (p, iid) = (*p, *iid);
                let Some((di, sig)) = self.sigma(p, iid) else {
                    self.err = Some(("spec:unaligned-infoset".into(), "infoset missing from compact tree".into()));
                    return 0.0;
                };
                let sig = sig.to_vec();
                self.visits.push((0, id));
                let mut vals = Vec::with_capacity(kids.len());
                let mut value = 0.0;
                for (a, kid) in kids.iter().enumerate() {
                    self.s_inc[p][di][a] += reach[p] * sig[a];
                    let mut nr = reach;
                    nr[p] *= sig[a];
                    let v = self.vanilla(*kid, p_chance, nr, sampled);
                    value += sig[a] * v;
                    vals.push(v);
                }
                let cf = p_chance * reach[1 - p] * if p == 0 { 1.0 } else { -1.0 };
                for (a, v) in vals.iter().enumerate() {
                    self.r_inc[p][di][a] += cf * (v - value);
                }
                value
            }
        }
    }

    /// external sampling traversal for updating player `u`; returns u's value
    fn external(&mut self, id: usize, u: usize) -> f64 {
        if self.err.is_some() {
            return 0.0;
        }
        match &self.flat.nodes[id] {
            FNode::Term(p) => {
                if u == 0 {
                    *p
                } else {
                    -*p
                }
            }
            FNode::Chance(cid, kids) => {
                if kids.len() == 1 {
                    return self.external(kids[0], u);
                }
                let Some(k) = self.chance_draw(*cid, kids.len()) else { return 0.0 };
                self.external(kids[k], u)
            }
            FNode::Player(p, iid, kids) => {
                if kids.len() == 1 {
                    return self.external(kids[0], u);
                }
                let (p, iid) = (*p, *iid);
                let Some((di, sig)) = self.sigma(p, iid) else {
                    self.err = Some(("spec:unaligned-infoset".into(), "infoset missing from compact tree".into()));
                    return 0.0;
                };
                let sig = sig.to_vec();
                if p == u {
                    self.visits.push((1, id));
                    let mut vals = Vec::with_capacity(kids.len());
                    let mut value = 0.0;
                    for (a, kid) in kids.iter().enumerate() {
                        let v = self.external(*kid, u);
                        value += sig[a] * v;
                        vals.push(v);
                    }
                    for (a, v) in vals.iter().enumerate() {
                        self.r_inc[p][di][a] += v - value;
                    }
                    value
                } else {
                    self.visits.push((2, id));
                    for (a, s) in sig.iter().enumerate() {
                        self.s_inc[p][di][a] += s;
                    }
                    let k = match self.pass.draws.get(&(p as u8, di)) {
                        Some((_, res)) if *res < kids.len() => {
                            self.used_draws.insert((p as u8, di), true);
                            *res
                        }
                        Some((_, res)) => {
                            self.err = Some(("draw:out-of-range".into(), format!("player draw {} for an infoset with {} actions", res, kids.len())));
                            return 0.0;
                        }
                        None => {
                            self.err = Some((
                                "draw:missing-player-draw".into(),
                                format!("pass {}: the traversal reaches infoset {} of the non-updating player {} but no action was drawn for it", self.pass.pass, di, p + 1),
                            ));
                            return 0.0;
                        }
                    };
                    self.external(kids[k], u)
                }
            }
        }
    }
}

fn close(a: f64, b: f64, tol_abs: f64) -> bool {
    a == b || (a - b).abs() <= tol_abs
}

impl<'a> Checker<'a> {
    pub fn new(flat: &'a Flat, al: &'a Align, method: Method, par: Params) -> Checker<'a> {
        Checker {
            flat,
            al,
            method,
            par,
            scale: flat.max_abs_payoff().max(1e-300),
            stats: Stats { min_margin: f64::INFINITY, ..Default::default() },
            with_visits: true,
            unit_mass: [0.0; 2],
        }
    }

    fn initial(&self) -> [Vec<InfoState>; 2] {
        [0, 1].map(|p| {
            self.al.info[p]
                .iter()
                .map(|iid| {
                    let n = self.flat.num_actions(p, *iid);
                    InfoState { cum_regret: vec![0.0; n], cum_strat: vec![0.0; n], strat: vec![1.0 / n as f64; n] }
                })
                .collect()
        })
    }

    /// regret matching as a relation: is `next` an allowed strategy for cumulative regrets `reg`
    /// (`reg_post` = the same regrets after discounting, accepted as softmax input as well)
    fn rm_ok(&mut self, reg: &[f64], reg_post: &[f64], next: &[f64], nat: f64) -> Result<(), String> {
        let n = reg.len();
        let pos: f64 = reg.iter().filter(|v| **v > 0.0).sum();
        // Distance of this regret vector from a discontinuity of regret matching, relative to the
        // natural magnitude `nat` of regrets at this infoset (payoff scale x nodes). The map is
        // continuous where the positive part is non-zero, but its sensitivity is 1/pos: when pos is
        // at rounding-noise level (exact mathematical ties) the direction of the positive part is
        // decided by summation order. Without positive regrets the nearest discontinuities are
        // the largest regret reaching zero and (for infinite weights) ties for the arg-max/min.
        let mut margin = if pos > 0.0 {
            pos / nat
        } else {
            reg.iter().fold(f64::INFINITY, |m, v| m.min(v.abs())) / nat
        };
        if !(pos > 0.0) && self.par.weight.is_infinite() && n >= 2 {
            let mut sorted: Vec<f64> = reg.to_vec();
            sorted.sort_by(|a, b| b.partial_cmp(a).unwrap_or(std::cmp::Ordering::Equal));
            let gap = if self.par.weight > 0.0 { sorted[0] - sorted[1] } else { sorted[n - 2] - sorted[n - 1] };
            margin = margin.min(gap / nat);
        }
        self.stats.min_margin = self.stats.min_margin.min(margin);
        if pos > 0.0 {
            self.stats.proportional_steps += 1;
            for (r, s) in reg.iter().zip(next.iter()) {
                let want = if *r > 0.0 { r / pos } else { 0.0 };
                if !close(*s, want, 1e-12) {
                    return Err(format!("positive regrets {:?} must give strategy proportional to them, got {:?}", reg, next));
                }
            }
            return Ok(());
        }
        let w = self.par.weight;
        if w == 0.0 {
            self.stats.uniform_steps += 1;
            if next.iter().all(|s| close(*s, 1.0 / n as f64, 1e-12)) {
                return Ok(());
            }
            return Err(format!("no positive regret and weight 0 must give the uniform strategy, got {:?} for regrets {:?}", next, reg));
        }
        if w.is_infinite() {
            self.stats.argmax_steps += 1;
            let best = if w > 0.0 { reg.iter().cloned().fold(f64::NEG_INFINITY, f64::max) } else { reg.iter().cloned().fold(f64::INFINITY, f64::min) };
            let ones: Vec<usize> = (0..n).filter(|a| next[*a] == 1.0).collect();
            let zeros = next.iter().filter(|s| **s == 0.0).count();
            if ones.len() == 1 && zeros == n - 1 && reg[ones[0]] == best {
                return Ok(());
            }
            return Err(format!("no positive regret and weight {} must put probability one on a {} regret action, got {:?} for regrets {:?}", w, if w > 0.0 { "largest" } else { "smallest" }, next, reg));
        }
        self.stats.softmax_steps += 1;
        let soft = |r: &[f64]| -> Vec<f64> {
            let m = r.iter().map(|v| v * w).fold(f64::NEG_INFINITY, f64::max);
            let e: Vec<f64> = r.iter().map(|v| (v * w - m).exp()).collect();
            let t: f64 = e.iter().sum();
            e.iter().map(|x| x / t).collect()
        };
        for cand in [soft(reg), soft(reg_post)] {
            if cand.iter().zip(next.iter()).all(|(c, s)| close(*c, *s, 1e-9)) {
                return Ok(());
            }
        }
        Err(format!("no positive regret: expected softmax({} x regrets) = {:?} for regrets {:?}, got {:?}", w, soft(reg), reg, next))
    }

    /// Check the whole log. `ret_strat`: returned dense strategies per player by dump infoset;
    /// `ret_bounds`: returned bounds; `max_iter`/`max_reg` as passed to solve.
    pub fn check(&mut self, passes: &[PassLog], ret_strat: &[Vec<Vec<f64>>; 2], ret_bounds: [f64; 2], max_iter: u64, max_reg: f64) -> Result<(), Fail> {
        let mut cur = self.initial();
        // number of completed accumulation batches of the average strategy per player
        let mut batches = [0u64; 2];
        self.unit_mass = [0.0; 2];
        let mut last_bounds = [f64::INFINITY; 2];
        let per_iter = if self.method == Method::External { 2 } else { 1 };
        let mut stopped = false;
        for (k, pass) in passes.iter().enumerate() {
            if stopped {
                return fail("termination:ran-past-threshold", format!("pass {} ran although both bounds {:?} were already below the threshold {}", pass.pass, last_bounds, max_reg));
            }
            let want_iter = k as u64 / per_iter + 1;
            let want_phase = if per_iter == 2 { (k as u64 % 2 + 1) as u8 } else { 0 };
            if pass.iteration != want_iter || pass.phase != want_phase {
                return fail("passes:order", format!("pass {} is iteration {} phase {}, expected iteration {} phase {}", pass.pass, pass.iteration, pass.phase, want_iter, want_phase));
            }
            if want_iter > max_iter {
                return fail("termination:budget-exceeded", format!("iteration {} ran with a budget of {}", want_iter, max_iter));
            }
            self.check_pass(pass, &mut cur, &mut batches, &mut last_bounds)?;
            self.stats.passes += 1;
            if (k as u64 + 1) % per_iter == 0 && last_bounds[0].max(last_bounds[1]) < max_reg {
                stopped = true;
            }
        }
        let iters_run = passes.len() as u64 / per_iter;
        if passes.len() as u64 % per_iter != 0 {
            return fail("passes:order", "external sampling ended between the two passes of an iteration".into());
        }
        if !stopped && iters_run < max_iter {
            return fail("termination:stopped-early", format!("only {} of {} iterations ran although the bounds {:?} never fell below the threshold {}", iters_run, max_iter, last_bounds, max_reg));
        }
        for p in 0..2 {
            self.stats.avg_cond[p] = cur[p]
                .iter()
                .enumerate()
                .map(|(di, st)| {
                    let mass: f64 = st.cum_strat.iter().sum();
                    let nodes = self.flat.info_nodes[p][self.al.info[p][di]].len().max(1) as f64;
                    if mass > 0.0 {
                        (self.unit_mass[p] * nodes / mass).max(1.0)
                    } else {
                        f64::INFINITY
                    }
                })
                .collect();
        }
        // returned values
        for p in 0..2 {
            if !(ret_bounds[p] == last_bounds[p]) {
                return fail("result:bounds", format!("returned bound {} of player {} differs from the last computed bound {}", ret_bounds[p], p + 1, last_bounds[p]));
            }
            for (di, st) in cur[p].iter().enumerate() {
                let tot: f64 = st.cum_strat.iter().sum();
                let n = st.cum_strat.len();
                for a in 0..n {
                    let want = if tot == 0.0 { 1.0 / n as f64 } else { st.cum_strat[a] / tot };
                    if !close(ret_strat[p][di][a], want, 1e-12) {
                        return fail("result:average-strategy", format!("returned strategy {:?} of player {} infoset {} is not the normalised cumulative strategy {:?}", ret_strat[p][di], p + 1, di, st.cum_strat));
                    }
                }
            }
        }
        Ok(())
    }

    fn check_pass(&mut self, pass: &PassLog, cur: &mut [Vec<InfoState>; 2], batches: &mut [u64; 2], last_bounds: &mut [f64; 2]) -> Result<(), Fail> {
        let t = pass.iteration;
        if let Some((who, info)) = pass.duplicate_draw {
            return fail("draw:more-than-one-per-infoset-per-pass", format!("pass {}: two fresh draws for {} infoset {}", pass.pass, if who == 2 { "chance".to_string() } else { format!("player {}", who + 1) }, info));
        }
        let (Some(pre0), Some(pre1), Some(post0), Some(post1)) = (&pass.pre[0], &pass.pre[1], &pass.post[0], &pass.post[1]) else {
            return fail("log:incomplete", format!("pass {} lacks state snapshots", pass.pass));
        };
        let pre = [pre0, pre1];
        let post = [post0, post1];
        let Some(bound) = pass.bound else {
            return fail("log:incomplete", format!("pass {} lacks bounds", pass.pass));
        };
        // ---- traversal ----
        let zeros = |p: usize| -> Vec<Vec<f64>> { cur[p].iter().map(|s| vec![0.0; s.strat.len()]).collect() };
        let mut walk = Walk {
            flat: self.flat,
            al: self.al,
            strat: [&cur[0], &cur[1]],
            pass,
            r_inc: [zeros(0), zeros(1)],
            s_inc: [zeros(0), zeros(1)],
            visits: Vec::new(),
            used_draws: HashMap::new(),
            err: None,
        };
        let updating: [bool; 2];
        let accumulating: [bool; 2];
        match self.method {
            Method::Full => {
                walk.vanilla(0, 1.0, [1.0; 2], false);
                updating = [true, true];
                accumulating = [true, true];
            }
            Method::Sampled => {
                walk.vanilla(0, 1.0, [1.0; 2], true);
                updating = [true, true];
                accumulating = [true, true];
            }
            Method::External => {
                let u = (pass.phase - 1) as usize;
                walk.external(0, u);
                updating = [u == 0, u == 1];
                accumulating = [u == 1, u == 0];
            }
        }
        if let Some(e) = walk.err.take() {
            return Err(e);
        }
        // draws: only where allowed, only for reached infosets, with the declared distribution
        for ((who, di), (weights, _)) in pass.draws.iter() {
            self.stats.draws_checked += 1;
            if self.method == Method::Full {
                return fail("draw:in-unsampled-method", format!("pass {}: the unsampled method drew a sample ({} infoset {})", pass.pass, who, di));
            }
            if *who != 2 {
                if self.method == Method::Sampled {
                    return fail("draw:player-sampled-in-chance-sampled-method", format!("pass {}: the chance-sampled method sampled an action of player {}", pass.pass, who + 1));
                }
                if updating[*who as usize] {
                    return fail("draw:updating-player-sampled", format!("pass {}: an action of the updating player {} was sampled", pass.pass, who + 1));
                }
                let sig = &cur[*who as usize][*di].strat;
                if sig != weights {
                    return fail("draw:wrong-player-distribution", format!("pass {}: player {} infoset {} sampled from {:?} but the current strategy is {:?}", pass.pass, who + 1, di, weights, sig));
                }
            } else {
                let cid = self.al.chance[*di];
                let want = &self.flat.chance_probs[cid];
                if want.len() != weights.len() || want.iter().zip(weights.iter()).any(|(a, b)| (a - b).abs() > 1e-9 * a.max(*b)) {
                    return fail("draw:wrong-chance-distribution", format!("pass {}: chance infoset {} sampled from {:?} but the declared normalised weights are {:?}", pass.pass, di, weights, want));
                }
            }
            if !walk.used_draws.contains_key(&(*who, *di)) {
                return fail("draw:for-unreached-infoset", format!("pass {}: a draw was made for {} infoset {} which the sampled traversal does not reach", pass.pass, if *who == 2 { "chance".to_string() } else { format!("player {}", who + 1) }, di));
            }
        }
        // visits: exactly the expected decision nodes, once each
        if self.with_visits {
            let mut want: HashMap<(u8, usize), i64> = HashMap::new();
            for (role, id) in &walk.visits {
                *want.entry((*role, self.al.addr_rev[*id])).or_insert(0) += 1;
            }
            for (role, _, _, addr, _) in &pass.visits {
                self.stats.visits_checked += 1;
                let e = want.entry((*role, *addr)).or_insert(0);
                *e -= 1;
                if *e < 0 {
                    let known = self.al.addr.contains_key(addr);
                    return fail(
                        if known { "visit:node-visited-twice-or-off-the-sampled-tree" } else { "visit:unknown-node" },
                        format!("pass {}: decision node {:#x} (role {}) was processed more often than the traversal prescribes", pass.pass, addr, role),
                    );
                }
            }
            if let Some(((role, addr), _)) = want.iter().find(|(_, v)| **v > 0) {
                return fail("visit:node-not-visited", format!("pass {}: decision node {:#x} (role {}) lies on the traversal but was never processed", pass.pass, addr, role));
            }
        }
        // pre-advance state = previous state + increments
        for p in 0..2 {
            if pre[p].len() != cur[p].len() {
                return fail("log:shape", "snapshot has the wrong number of infosets".into());
            }
            for (di, (c, q)) in cur[p].iter().zip(pre[p].iter()).enumerate() {
                let nodes = self.flat.info_nodes[p][self.al.info[p][di]].len() as f64;
                self.stats.infoset_transitions += 1;
                for a in 0..c.strat.len() {
                    let want_r = c.cum_regret[a] + walk.r_inc[p][di][a];
                    let tol_r = 1e-9 * (c.cum_regret[a].abs() + self.scale * nodes.max(1.0));
                    if !close(q.cum_regret[a], want_r, tol_r) {
                        return fail(
                            if updating[p] { "traversal:regret-increment" } else { "traversal:regret-of-non-updating-player-changed" },
                            format!("pass {} (iteration {}): cumulative regret of player {} infoset {} action {} is {} after the traversal, the documented update gives {} (before: {}, increment {})", pass.pass, t, p + 1, di, a, q.cum_regret[a], want_r, c.cum_regret[a], walk.r_inc[p][di][a]),
                        );
                    }
                    let err = (q.cum_regret[a] - want_r).abs() / (c.cum_regret[a].abs() + self.scale * nodes.max(1.0));
                    self.stats.max_rel_err = self.stats.max_rel_err.max(err);
                    let want_s = c.cum_strat[a] + walk.s_inc[p][di][a];
                    let tol_s = 1e-9 * (c.cum_strat[a].abs() + nodes.max(1.0));
                    if !close(q.cum_strat[a], want_s, tol_s) {
                        return fail(
                            if accumulating[p] { "traversal:average-strategy-increment" } else { "traversal:average-of-non-accumulating-player-changed" },
                            format!("pass {} (iteration {}): cumulative strategy of player {} infoset {} action {} is {} after the traversal, the documented update gives {} (before: {}, increment {})", pass.pass, t, p + 1, di, a, q.cum_strat[a], want_s, c.cum_strat[a], walk.s_inc[p][di][a]),
                        );
                    }
                    if q.strat[a] != c.strat[a] {
                        return fail("traversal:strategy-changed", format!("pass {}: current strategy changed during the traversal", pass.pass));
                    }
                }
            }
        }
        // a player's n-th accumulation batch is complete once the traversal that accumulated it is
        for p in 0..2 {
            if accumulating[p] {
                batches[p] += 1;
                self.unit_mass[p] += 1.0;
            }
        }
        // ---- advance ----
        for p in 0..2 {
            let m = batches[p];
            for (di, (q, r)) in pre[p].iter().zip(post[p].iter()).enumerate() {
                let n = q.strat.len();
                if !updating[p] {
                    if q != r {
                        return fail("advance:non-updating-player-changed", format!("pass {}: state of player {} infoset {} changed although only the other player advances", pass.pass, p + 1, di));
                    }
                    continue;
                }
                // regrets discounted
                let dpos = discount(t, self.par.alpha);
                let dneg = discount(t, self.par.beta);
                for a in 0..n {
                    let x = q.cum_regret[a];
                    let want = if x > 0.0 { x * dpos } else if x < 0.0 { x * dneg } else { x };
                    if !close(r.cum_regret[a], want, 1e-9 * x.abs() + f64::MIN_POSITIVE) {
                        return fail("advance:regret-discount", format!("iteration {}: regret {} of player {} infoset {} became {}, documented discount t^x/(t^x+1) gives {} (alpha {}, beta {})", t, x, p + 1, di, r.cum_regret[a], want, self.par.alpha, self.par.beta));
                    }
                }
                // next strategy
                let nodes = self.flat.info_nodes[p][self.al.info[p][di]].len() as f64;
                let nat = self.scale * nodes.max(1.0) * if self.method == Method::External { 1.0 } else { 1.0 };
                if let Err(msg) = self.rm_ok(&q.cum_regret, &r.cum_regret, &r.strat, nat) {
                    return fail("advance:regret-matching", format!("iteration {} player {} infoset {}: {}", t, p + 1, di, msg));
                }
                // average strategy discounted by (m/(m+1))^gamma, m = completed accumulation batches
                let g = self.par.gamma;
                let factor = if g == 0.0 { 1.0 } else { (m as f64 / (m as f64 + 1.0)).powf(g) };
                if di == 0 {
                    self.unit_mass[p] *= factor;
                }
                for a in 0..n {
                    let want = q.cum_strat[a] * factor;
                    if !close(r.cum_strat[a], want, 1e-9 * q.cum_strat[a].abs() + f64::MIN_POSITIVE) {
                        return fail("advance:average-discount", format!("iteration {}: cumulative strategy {} of player {} infoset {} became {}, weighting the n-th contribution by n^gamma (gamma {}, n = {}) gives {}", t, q.cum_strat[a], p + 1, di, r.cum_strat[a], g, m, want));
                    }
                }
            }
            if updating[p] {
                // bound = sum over infosets of 2 max(max regret, 0) / t
                let want: f64 = post[p].iter().map(|s| 2.0 * s.cum_regret.iter().cloned().fold(f64::NEG_INFINITY, f64::max).max(0.0) / t as f64).sum();
                let tol = 1e-9 * want.abs().max(self.scale * 1e-6);
                if !close(bound[p], want, tol) || bound[p].is_nan() {
                    return fail("advance:bound", format!("iteration {}: bound of player {} is {} but sum over infosets of 2*max(max regret,0)/t = {}", t, p + 1, bound[p], want));
                }
                last_bounds[p] = bound[p];
            } else if !(bound[p] == last_bounds[p]) {
                return fail("advance:bound-of-non-updating-player-changed", format!("iteration {}: bound of player {} changed from {} to {} in a pass that does not update it", t, p + 1, last_bounds[p], bound[p]));
            }
        }
        *cur = [post[0].clone(), post[1].clone()];
        Ok(())
    }
}
