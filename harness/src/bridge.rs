//! Glue between the harness tree and the library under test.
use crate::tree::{profile_to_named, Flat, HNode, Profile};
use cfr::{Game, GameError, Strategies};

pub type G = Game<String, String>;
pub type S<'a> = Strategies<'a, String, String>;

pub fn build(tree: &HNode) -> Result<G, GameError> {
    Game::from_root(tree.clone())
}

/// A key type that is legal but unlike `String` in every way the library may not rely on:
/// `Eq` is coarser than structural equality (names are compared ignoring ASCII case), and `Hash`
/// - consistent with it - collides almost always (only the parity of the length is hashed). The
/// library is generic over its infoset, action and chance-infoset types (`Hash + Eq`).
#[derive(Clone, Debug)]
pub struct WeakKey(pub String);

impl PartialEq for WeakKey {
    fn eq(&self, other: &Self) -> bool {
        self.0.eq_ignore_ascii_case(&other.0)
    }
}

impl Eq for WeakKey {}

impl std::hash::Hash for WeakKey {
    fn hash<H: std::hash::Hasher>(&self, state: &mut H) {
        (self.0.len() % 2).hash(state)
    }
}

/// A name as [WeakKey] with the case of its letters flipped pseudo-randomly (per occurrence: two
/// occurrences of one name generally differ as strings and are equal as keys)
pub fn weak(name: &str, salt: &mut u64) -> WeakKey {
    let mut out = String::with_capacity(name.len());
    for c in name.chars() {
        *salt = crate::rng::mix(*salt);
        out.push(if *salt & 1 == 0 { c.to_ascii_uppercase() } else { c.to_ascii_lowercase() });
    }
    WeakKey(out)
}

/// An iterator adaptor with an honest but unhelpful `size_hint`, chosen by `mode % 4`:
/// 0: (0, None); 1: (min(1, len), None) - "at least one"; 2: (min(1, len), Some(len + 2));
/// 3: exact (what a `Vec` reports)
pub struct NoHint<I>(pub I, pub u64);

impl<I: ExactSizeIterator> Iterator for NoHint<I> {
    type Item = I::Item;
    fn next(&mut self) -> Option<I::Item> {
        self.0.next()
    }
    fn size_hint(&self) -> (usize, Option<usize>) {
        let len = self.0.len();
        match self.1 % 4 {
            0 => (0, None),
            1 => (len.min(1), None),
            2 => (len.min(1), Some(len + 2)),
            _ => (len, Some(len)),
        }
    }
}

/// A named listing (one player) delivered through [NoHint] iterators, outer and inner
pub type LazyListing<K> = NoHint<std::vec::IntoIter<(K, NoHint<std::vec::IntoIter<(K, f64)>>)>>;

pub fn lazy_listing<K: Clone>(c: &[(K, Vec<(K, f64)>)], salt: &mut u64) -> LazyListing<K> {
    let outer: Vec<(K, NoHint<std::vec::IntoIter<(K, f64)>>)> = c
        .iter()
        .map(|(i, acts)| {
            *salt = crate::rng::mix(*salt);
            (i.clone(), NoHint(acts.clone().into_iter(), *salt >> 7))
        })
        .collect();
    *salt = crate::rng::mix(*salt);
    NoHint(outer.into_iter(), *salt >> 11)
}

/// The harness tree presented through [WeakKey] names in random case and through child iterators
/// that are not `Vec`s and give honest but unhelpful size hints (see [NoHint])
pub struct WNode(pub HNode, pub u64);

impl cfr::IntoGameNode for WNode {
    type PlayerInfo = WeakKey;
    type Action = WeakKey;
    type ChanceInfo = WeakKey;
    type Outcomes = NoHint<std::vec::IntoIter<(f64, WNode)>>;
    type Actions = NoHint<std::vec::IntoIter<(WeakKey, WNode)>>;

    fn into_game_node(self) -> cfr::GameNode<Self> {
        let mut salt = self.1;
        match self.0 {
            HNode::Term(pay) => cfr::GameNode::Terminal(pay),
            HNode::Chance { info, outs } => {
                let info = info.map(|i| weak(&i, &mut salt));
                let kids: Vec<(f64, WNode)> = outs
                    .into_iter()
                    .map(|(w, n)| {
                        salt = crate::rng::mix(salt);
                        (w, WNode(n, salt))
                    })
                    .collect();
                cfr::GameNode::Chance(info, NoHint(kids.into_iter(), salt >> 5))
            }
            HNode::Player { p, info, acts } => {
                let info = weak(&info, &mut salt);
                let kids: Vec<(WeakKey, WNode)> = acts
                    .into_iter()
                    .map(|(a, n)| {
                        let a = weak(&a, &mut salt);
                        salt = crate::rng::mix(salt);
                        (a, WNode(n, salt))
                    })
                    .collect();
                cfr::GameNode::Player(crate::tree::pnum(p as usize), info, NoHint(kids.into_iter(), salt >> 9))
            }
        }
    }
}

/// false if two different names of the tree are equal ignoring case (the presentation through
/// [WeakKey] would then be a different game)
pub fn weak_presentable(tree: &HNode) -> bool {
    fn collect(n: &HNode, out: &mut std::collections::HashSet<String>) {
        match n {
            HNode::Term(_) => {}
            HNode::Chance { info, outs } => {
                if let Some(i) = info {
                    out.insert(format!("c:{}", i));
                }
                outs.iter().for_each(|(_, k)| collect(k, out));
            }
            HNode::Player { p, info, acts } => {
                out.insert(format!("p{}:{}", p, info));
                for (a, k) in acts {
                    out.insert(format!("a:{}", a));
                    collect(k, out);
                }
            }
        }
    }
    let mut names = std::collections::HashSet::new();
    collect(tree, &mut names);
    let lower: std::collections::HashSet<String> = names.iter().map(|s| s.to_ascii_lowercase()).collect();
    lower.len() == names.len()
}

pub fn build_weak(tree: &HNode) -> Result<Game<WeakKey, WeakKey>, GameError> {
    Game::from_root(WNode(tree.clone(), tree.structural_hash() | 1))
}

/// Profile as the public named view shows it (zero-probability actions omitted by the library
/// become 0). Errors if the view is not a well-formed listing of the game's infosets.
pub fn named_profile(flat: &Flat, strat: &S) -> Result<Profile, String> {
    let [one, two] = strat.as_named();
    crate::tree::named_to_profile(flat, [one, two])
}

/// Profile exactly as stored (hook H1), NaN and negative entries included. Single-action
/// infosets are filled with 1.
pub fn dense_profile(game: &G, flat: &Flat, strat: &S) -> Result<Profile, String> {
    let names = game.verif_infoset_names();
    let probs = strat.verif_probs();
    let mut out: Profile = [
        flat.info_actions[0].iter().map(|a| vec![f64::NAN; a.len()]).collect(),
        flat.info_actions[1].iter().map(|a| vec![f64::NAN; a.len()]).collect(),
    ];
    for p in 0..2 {
        for (i, acts) in flat.info_actions[p].iter().enumerate() {
            if acts.len() == 1 {
                out[p][i] = vec![1.0];
            }
        }
        let mut off = 0;
        for name in names[p].iter() {
            let iid = *flat.name_to_info[p]
                .get(*name)
                .ok_or_else(|| format!("library infoset {:?} unknown to harness", name))?;
            let n = flat.info_actions[p][iid].len();
            if off + n > probs[p].len() {
                return Err("dense strategy shorter than infoset table".into());
            }
            out[p][iid] = probs[p][off..off + n].to_vec();
            off += n;
        }
        if off != probs[p].len() {
            return Err("dense strategy longer than infoset table".into());
        }
    }
    Ok(out)
}

pub fn inject<'a>(game: &'a G, flat: &Flat, prof: &Profile) -> Result<S<'a>, cfr::StratError> {
    let [one, two] = profile_to_named(flat, prof);
    game.from_named([one, two])
}
