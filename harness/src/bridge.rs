//! Glue between the harness tree and the library under test.
use crate::tree::{profile_to_named, Flat, HNode, Profile};
use cfr::{Game, GameError, Strategies};

pub type G = Game<String, String>;
pub type S<'a> = Strategies<'a, String, String>;

pub fn build(tree: &HNode) -> Result<G, GameError> {
    Game::from_root(tree.clone())
}

/// A key type whose `Hash` is legal but as weak as it gets: equal keys hash equally, and so do
/// most unequal ones (only the parity of the length is hashed). The library is generic over its
/// infoset, action and chance-infoset types (`Hash + Eq`); nothing may depend on hashes being
/// distinct.
#[derive(Clone, Debug, PartialEq, Eq)]
pub struct WeakKey(pub String);

impl std::hash::Hash for WeakKey {
    fn hash<H: std::hash::Hasher>(&self, state: &mut H) {
        (self.0.len() % 2).hash(state)
    }
}

/// The harness tree presented with [WeakKey] names
pub struct WNode(pub HNode);

impl cfr::IntoGameNode for WNode {
    type PlayerInfo = WeakKey;
    type Action = WeakKey;
    type ChanceInfo = WeakKey;
    type Outcomes = Vec<(f64, WNode)>;
    type Actions = Vec<(WeakKey, WNode)>;

    fn into_game_node(self) -> cfr::GameNode<Self> {
        match self.0 {
            HNode::Term(pay) => cfr::GameNode::Terminal(pay),
            HNode::Chance { info, outs } => cfr::GameNode::Chance(info.map(WeakKey), outs.into_iter().map(|(w, n)| (w, WNode(n))).collect()),
            HNode::Player { p, info, acts } => cfr::GameNode::Player(crate::tree::pnum(p as usize), WeakKey(info), acts.into_iter().map(|(a, n)| (WeakKey(a), WNode(n))).collect()),
        }
    }
}

pub fn build_weak(tree: &HNode) -> Result<Game<WeakKey, WeakKey>, GameError> {
    Game::from_root(WNode(tree.clone()))
}

/// Profile as the public named view shows it (zero-probability actions omitted by the library
/// become 0). Errors if the view is not a well-formed listing of the game's infosets.
pub fn named_profile(flat: &Flat, strat: &S) -> Result<Profile, String> {
    let [one, two] = strat.as_named();
    crate::tree::named_to_profile(flat, [one, two])
}

/// Profile exactly as stored (hook H1), NaN and negative entries included. Single-action
/// infosets are filled with 1.
pub fn dense_profile(game: &G, flat: &Flat, strat: &S) -> Result<Profile, String> {
    let names = game.verif_infoset_names();
    let probs = strat.verif_probs();
    let mut out: Profile = [
        flat.info_actions[0].iter().map(|a| vec![f64::NAN; a.len()]).collect(),
        flat.info_actions[1].iter().map(|a| vec![f64::NAN; a.len()]).collect(),
    ];
    for p in 0..2 {
        for (i, acts) in flat.info_actions[p].iter().enumerate() {
            if acts.len() == 1 {
                out[p][i] = vec![1.0];
            }
        }
        let mut off = 0;
        for name in names[p].iter() {
            let iid = *flat.name_to_info[p]
                .get(*name)
                .ok_or_else(|| format!("library infoset {:?} unknown to harness", name))?;
            let n = flat.info_actions[p][iid].len();
            if off + n > probs[p].len() {
                return Err("dense strategy shorter than infoset table".into());
            }
            out[p][iid] = probs[p][off..off + n].to_vec();
            off += n;
        }
        if off != probs[p].len() {
            return Err("dense strategy longer than infoset table".into());
        }
    }
    Ok(out)
}

pub fn inject<'a>(game: &'a G, flat: &Flat, prof: &Profile) -> Result<S<'a>, cfr::StratError> {
    let [one, two] = profile_to_named(flat, prof);
    game.from_named([one, two])
}
