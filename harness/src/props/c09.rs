//! C09: early termination stops exactly at the first iteration below the threshold.
//! Monitor: differential against budget-t runs of the same solve (same code path, so the
//! thresholded run must be bit-identical to S_{t*} with one thread); sampled methods under
//! seeded sampling decisions (hook H2).
use crate::gen::{self, ParamSpec};
use crate::report::Ctx;
use crate::rng::mix;
use crate::solve::{self, Cfg, Outcome, Prepared};
use cfr::verif::{Config, Sampling};
use cfr::SolveMethod;
use serde_json::json;

fn next_up(x: f64) -> f64 {
    if x.is_nan() || x == f64::INFINITY {
        x
    } else if x == 0.0 {
        f64::from_bits(1)
    } else if x > 0.0 {
        f64::from_bits(x.to_bits() + 1)
    } else {
        f64::from_bits(x.to_bits() - 1)
    }
}

fn next_down(x: f64) -> f64 {
    -next_up(-x)
}

pub fn run(ctx: &mut Ctx) {
    let quick = ctx.quick();
    let n = if quick { 12_000 } else { 600_000 };
    ctx.run_cases(n, |ctx, idx, rng| {
        let (desc, tree) = crate::props::c08::small_game(rng);
        let prep = match Prepared::new(&tree) {
            Ok(p) => p,
            Err(e) => {
                ctx.violation(idx, "C09:prepare", &format!("{} ({})", e, desc), json!({"game": tree.to_json()}));
                return;
            }
        };
        let method = gen::METHODS[rng.below(3)];
        let params = if rng.chance(0.6) { ParamSpec::random(rng) } else { ParamSpec::random_custom(rng) };
        let budget = if rng.chance(0.1) { 40 } else { rng.range(1, 12) as u64 };
        let threads = if rng.chance(0.25) { 4 } else { 1 };
        let seed = rng.next();
        // pass markers (hook H3) are logged in every run: the number of traversals that actually
        // ran is a witness of the stopping iteration that does not go through the solver's own
        // bound arithmetic
        let hook = || {
            if method == SolveMethod::Full {
                Some(Config { flags: cfr::verif::LOG_PASS, sampling: Sampling::Production, jitter_seed: 0 })
            } else {
                Some(Config { flags: cfr::verif::LOG_PASS, sampling: Sampling::Seeded(seed), jitter_seed: 0 })
            }
        };
        let per_iter: u64 = if method == SolveMethod::External { 2 } else { 1 };
        let passes = |o: &solve::Out| o.events.iter().filter(|e| matches!(e, cfr::verif::Event::Pass { .. })).count() as u64;
        // budget 0 (every threshold): "the budget is never exceeded" - no traversal may run
        {
            let r0 = *rng.pick(&[0.0, 1e9, f64::NAN, f64::INFINITY, -1.0, 1e-9]);
            let cfg = Cfg { method, iters: 0, max_reg: r0, threads, params };
            ctx.mark(idx, &cfg.describe());
            match solve::run(&prep, &cfg, hook()) {
                Outcome::Ok(out) => {
                    ctx.count("zero-budget-runs", 1);
                    if passes(&out) != 0 {
                        ctx.violation(
                            idx,
                            &format!("C09:zero-budget-exceeded:{}{}", gen::method_name(method), if threads > 1 { ":multi" } else { "" }),
                            &format!("{}: {} traversal(s) ran with an iteration budget of 0 (bound returned {}) on {}", cfg.describe(), passes(&out), out.total_bound, desc),
                            json!({"game": tree.to_json(), "cfg": cfg.describe(), "desc": desc}),
                        );
                        return;
                    }
                }
                Outcome::Err(_) => {
                    ctx.inconclusive("thread-spawn-error");
                    return;
                }
                Outcome::Panic(msg) => {
                    ctx.violation(idx, "C09:panic", &format!("{} panicked: {}", cfg.describe(), msg), json!({"game": tree.to_json()}));
                    return;
                }
            }
        }
        // the unthresholded runs with budgets 1..=N
        let mut seq: Vec<Box<solve::Out>> = Vec::new();
        for t in 1..=budget {
            let cfg = Cfg { method, iters: t, max_reg: 0.0, threads, params };
            ctx.mark(idx, &cfg.describe());
            match solve::run(&prep, &cfg, hook()) {
                Outcome::Ok(out) => {
                    // threshold 0: no bound is below it, so exactly t iterations must run
                    if passes(&out) != t * per_iter {
                        ctx.violation(
                            idx,
                            &format!("C09:iterations-run-differ-from-budget:{}{}", gen::method_name(method), if threads > 1 { ":multi" } else { "" }),
                            &format!("{}: {} traversal(s) ran, {} expected (threshold 0 can never be undercut, bound returned {}) on {}", cfg.describe(), passes(&out), t * per_iter, out.total_bound, desc),
                            json!({"game": tree.to_json(), "cfg": cfg.describe(), "desc": desc}),
                        );
                        return;
                    }
                    seq.push(out)
                }
                Outcome::Err(_) => {
                    ctx.inconclusive("thread-spawn-error");
                    return;
                }
                Outcome::Panic(msg) => {
                    ctx.violation(idx, "C09:panic", &format!("{} panicked: {}", cfg.describe(), msg), json!({"game": tree.to_json()}));
                    return;
                }
            }
        }
        let bounds: Vec<f64> = seq.iter().map(|o| o.total_bound).collect();
        // thresholds below, at and above every bound of the run, between neighbours, and extremes
        let mut rs = vec![0.0, -1.0, f64::NAN, f64::INFINITY, f64::NEG_INFINITY, -0.0];
        for (i, b) in bounds.iter().enumerate() {
            rs.push(*b);
            rs.push(next_up(*b));
            rs.push(next_down(*b));
            if i + 1 < bounds.len() {
                rs.push((b + bounds[i + 1]) / 2.0);
            }
            rs.push(b * 1.5);
        }
        if quick && rs.len() > 16 {
            rng.shuffle(&mut rs[6..]);
            rs.truncate(16);
        }
        // (threshold, budget): the ordinary budget N, plus "unbounded" budgets (u64::MAX is the
        // documented idiom, the CLI maps `-t 0` to it) paired with a threshold that is known to be
        // reached within N iterations
        let mut jobs: Vec<(f64, u64)> = rs.into_iter().map(|r| (r, budget)).collect();
        let j = rng.below(bounds.len());
        // With one thread the run repeats the reference bit for bit, so the next number above
        // bound j is reached at iteration j+1 for certain. With several threads the bound of this run
        // may sit an ulp or two higher (summation order): the threshold then needs a margin, and a
        // bound of (nearly) zero cannot be used at all - an unbounded run that misses its threshold
        // by an ulp never ends.
        let r_unbounded = if threads == 1 {
            Some(next_up(bounds[j]))
        } else if bounds[j] > 1e-290 {
            Some(bounds[j] * (1.0 + 1e-6))
        } else {
            None
        };
        if let (true, Some(r)) = (bounds[j].is_finite(), r_unbounded) {
            for big in [u64::MAX, u64::MAX - 1, 1u64 << 63, budget + 1] {
                jobs.push((r, big));
            }
        }
        for (r, run_budget) in jobs {
            let cfg = Cfg { method, iters: run_budget, max_reg: r, threads, params };
            ctx.mark(idx, &cfg.describe());
            let tstar = bounds.iter().position(|b| *b < r).map(|i| i + 1).unwrap_or(budget as usize);
            let near = threads > 1 && bounds.iter().any(|b| (b - r).abs() <= 1e-9 * b.abs().max(1e-300));
            let detail = || json!({"game": tree.to_json(), "cfg": cfg.describe(), "desc": desc, "bounds_by_budget": bounds, "sampling_seed": seed.to_string()});
            match solve::run(&prep, &cfg, hook()) {
                Outcome::Ok(out) => {
                    let want = &seq[tstar - 1];
                    let same = if threads == 1 {
                        out.dense == want.dense && out.bounds.map(f64::to_bits) == want.bounds.map(f64::to_bits)
                    } else {
                        solve::same_within(&out, want, 1e-9, prep.flat.max_abs_payoff()).is_none()
                    };
                    let rclass = if r.is_nan() {
                        "nan"
                    } else if r <= 0.0 {
                        "non-positive"
                    } else if r == f64::INFINITY {
                        "+inf"
                    } else {
                        "positive"
                    };
                    ctx.count(&format!("threshold:{}", rclass), 1);
                    if !same {
                        if near {
                            ctx.dont_care("threshold-within-rounding-of-a-bound-with-several-threads");
                            continue;
                        }
                        if threads > 1 {
                            // With several threads the two runs add the same numbers in different
                            // orders. If a logged run of this configuration passes within 1e-9 of a
                            // regret-matching discontinuity (regrets at rounding-noise level), which
                            // side it falls on is decided by the summation order: inconclusive, as
                            // in C06/C07. Otherwise the tolerance is widened by the measured
                            // conditioning of each infoset's average strategy.
                            let log_cfg = Cfg { method, iters: tstar as u64, max_reg: 0.0, threads, params };
                            let sampling = if method == SolveMethod::Full { Sampling::Production } else { Sampling::Seeded(seed) };
                            if let Outcome::Ok(logged) = solve::run(&prep, &log_cfg, Some(Config { flags: solve::ALL_LOGS & !cfr::verif::LOG_VISIT, sampling, jitter_seed: 0 })) {
                                match solve::step_check(&prep, &log_cfg, &logged, false) {
                                    Ok(st) if st.min_margin < 1e-9 => {
                                        ctx.inconclusive("outputs-differ-but-a-trace-passed-within-1e-9-of-a-regret-matching-discontinuity");
                                        continue;
                                    }
                                    Ok(st) => {
                                        if solve::same_within_cond(&out, want, &st, &st, prep.flat.max_abs_payoff(), 1.0).0.is_none() {
                                            ctx.count("equal-only-within-conditioning-aware-tolerance", 1);
                                            ctx.ok(mix(tree.structural_hash() ^ mix(crate::rng::hash_str(&cfg.describe()) ^ seed)), prep.flat.num_decision_infosets() > 0);
                                            continue;
                                        }
                                    }
                                    Err(_) => {
                                        ctx.inconclusive("multi-thread-trace-rejected(see C06/C07/C08)");
                                        continue;
                                    }
                                }
                            }
                            // both runs logged side by side: does the difference grow smoothly out of
                            // rounding noise (amplification by the iteration, see solve::smooth_divergence)?
                            {
                                let mk2 = || if method == SolveMethod::Full { Sampling::Production } else { Sampling::Seeded(seed) };
                                let flags = solve::ALL_LOGS & !cfr::verif::LOG_VISIT;
                                let la = solve::run(&prep, &cfg, Some(Config { flags, sampling: mk2(), jitter_seed: 0 }));
                                let lb = solve::run(&prep, &log_cfg, Some(Config { flags, sampling: mk2(), jitter_seed: 0 }));
                                if let (Outcome::Ok(la), Outcome::Ok(lb)) = (la, lb) {
                                    if solve::smooth_divergence(&la, &lb, prep.flat.max_abs_payoff(), 100.0).is_some() {
                                        ctx.inconclusive("outputs-differ-but-the-difference-grows-smoothly-from-rounding-noise(<100x-per-snapshot)");
                                        continue;
                                    }
                                }
                            }
                            let probe_cfg = Cfg { method, iters: tstar as u64, max_reg: 0.0, threads: 1, params };
                            let mk = || if method == SolveMethod::Full { Sampling::Production } else { Sampling::Seeded(seed) };
                            if let Outcome::Ok(base1) = solve::run(&prep, &probe_cfg, Some(Config { flags: 0, sampling: mk(), jitter_seed: 0 })) {
                                let judged = solve::max_difference(&out, want, prep.flat.max_abs_payoff());
                                if solve::stability_probe(&tree, &probe_cfg, &mk, &base1, idx) >= judged / 1000.0 {
                                    ctx.inconclusive("outputs-differ-but-the-solve-is-unstable-under-1e-13-relative-payoff-perturbations");
                                    continue;
                                }
                            }
                        }
                        // which budget does it equal, if any
                        let matches: Vec<usize> = seq.iter().enumerate().filter(|(_, o)| o.dense == out.dense).map(|(i, _)| i + 1).collect();
                        ctx.violation(
                            idx,
                            &format!("C09:not-equal-to-budget-tstar:{}{}", gen::method_name(method), if threads > 1 { ":multi" } else { "" }),
                            &format!("{}: expected the result of budget t*={} (first bound below r among {:?}), got bound {} and a profile equal to budget(s) {:?} on {}", cfg.describe(), tstar, bounds, out.total_bound, matches, desc),
                            detail(),
                        );
                        return;
                    }
                    if threads == 1 && passes(&out) != tstar as u64 * per_iter {
                        ctx.violation(idx, &format!("C09:iterations-run-differ-from-tstar:{}", gen::method_name(method)), &format!("{}: {} traversal(s) ran, t*={} expected", cfg.describe(), passes(&out), tstar), detail());
                        return;
                    }
                    if (tstar as u64) < budget && !(out.total_bound < r) {
                        ctx.violation(idx, "C09:stopped-early-but-bound-not-below-threshold", &format!("{}: bound {}", cfg.describe(), out.total_bound), detail());
                        return;
                    }
                    if (tstar as u64) < budget {
                        ctx.count("runs_that_stopped_early", 1);
                    }
                    if run_budget > budget {
                        ctx.count("runs_with_unbounded_budget_and_reachable_threshold", 1);
                    }
                    ctx.ok(mix(tree.structural_hash() ^ mix(crate::rng::hash_str(&cfg.describe()) ^ seed)), prep.flat.num_decision_infosets() > 0);
                    ctx.sample(3, || json!({"game": tree.brief(100), "cfg": cfg.describe(), "bounds_by_budget": bounds, "t_star": tstar}));
                }
                Outcome::Err(_) => ctx.inconclusive("thread-spawn-error"),
                Outcome::Panic(msg) => {
                    ctx.violation(idx, "C09:panic", &format!("{} panicked: {}", cfg.describe(), msg), detail());
                    return;
                }
            }
        }
    });
    ctx.finish(crate::report::extra(
        "cases = (game, method, parameters, budget N, threads, threshold r): for each game/method/parameter set the harness first runs solve(m, t, 0) for t = 1..N (N in 1..12, sometimes 40) to obtain the bound sequence b_1..b_N and results S_1..S_N, then runs solve(m, N, r) for r in {0,-0,-1,NaN,+-inf} and b_t, next_up(b_t), next_down(b_t), 1.5 b_t, midpoints of neighbours, and requires the result to be S_{t*} with t* = first t with b_t < r else N (also with budgets u64::MAX, u64::MAX-1, 2^63 and N+1 paired with a threshold reached within N iterations): bit-identical with one thread, within 1e-9 with four threads (thresholds within 1e-9 relative of some b_t are then don't-care; a difference is inconclusive if a logged run of the configuration passes within 1e-9 of a regret-matching discontinuity, as in C06/C07), and bound < r whenever t* < N. Independently of the bounds, the number of traversals that ran (pass markers, hook H3) must be t for every threshold-0 run with budget t, t* for every thresholded one-thread run, and 0 for a run with budget 0 whatever the threshold (one per case, 1 or 4 threads). Sampled and External run under seeded sampling decisions (hook H2) so that the draw at (infoset, pass) is a pure function. distinct = hash(tree, configuration incl. threshold, sampling seed); non-trivial = game has a decision infoset.",
        &["seeded sampling feeds the production samplers from a deterministic generator keyed by (seed, site, infoset, pass)"],
    ));
}
