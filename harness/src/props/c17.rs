//! C17: the CLI rejects malformed or unsupported inputs instead of solving them.
//! Monitor: end-to-end negative testing of the shipped binary: systematic corruptions of valid
//! generated files under each --input-format; exit status, stdout emptiness and the diagnostic are
//! judged against what the harness knows it corrupted. Some corruptions keep the file valid and
//! must be accepted.
use crate::cli;
use crate::files::{self, EfgOpts, Format, Naming};
use crate::mutate;
use crate::report::Ctx;
use crate::rng::{mix, Rng};
use crate::tree::{Flat, HNode};
use crate::validate::validate;
use serde_json::json;
use std::time::Duration;

#[derive(Clone, Debug)]
enum Expect {
    /// must be rejected; stderr must contain one of these
    Reject(Vec<&'static str>),
    Accept,
    DontCare(&'static str),
}

struct Case {
    name: String,
    text: String,
    /// the input as bytes where it is not valid UTF-8 (`text` then holds a lossy rendering for reports)
    raw: Option<Vec<u8>>,
    /// "json" | "gambit" | "auto"
    format_arg: &'static str,
    ext: &'static str,
    expect: Expect,
}

const JSON_ERR: &str = "#json-error";
const GAMBIT_ERR: &str = "#gambit-error";
const AUTO_ERR: &str = "#auto-error";
const GAME_ERR: &str = "#game-error";
const DUP_ERR: &str = "#duplicate-infosets";
const SUM_ERR: &str = "#constant-sum";

fn parse_err_for(fmt: Format, arg: &'static str) -> Vec<&'static str> {
    match (fmt, arg) {
        (_, "auto") => vec![AUTO_ERR],
        (Format::Json, _) => vec![JSON_ERR],
        (Format::Efg, _) => vec![GAMBIT_ERR],
    }
}

fn replace_nth(text: &str, pat: &str, with: &str, nth: usize) -> Option<String> {
    let idxs: Vec<usize> = text.match_indices(pat).map(|(i, _)| i).collect();
    if idxs.is_empty() {
        return None;
    }
    let i = idxs[nth % idxs.len()];
    Some(format!("{}{}{}", &text[..i], with, &text[i + pat.len()..]))
}

fn json_cases(rng: &mut Rng, tree: &HNode, out: &mut Vec<Case>) {
    let fg = files::write_json(rng, tree);
    let t = &fg.text;
    let arg = *rng.pick(&["json", "auto"]);
    let ext = if arg == "auto" { *rng.pick(&["json", "txt"]) } else { *rng.pick(&["json", "txt", "efg"]) };
    // with a .json extension auto means json
    let perr = if arg == "auto" && ext == "json" { vec![JSON_ERR] } else { parse_err_for(Format::Json, arg) };
    let mut push = |name: &str, text: Option<String>, expect: Expect| {
        if let Some(text) = text {
            out.push(Case { name: format!("json:{}", name), text, raw: None, format_arg: arg, ext, expect });
        }
    };
    let k = rng.next() as usize;
    match rng.below(19) {
        18 => {
            // a field stated twice with different values: the documentation does not settle whether
            // that is an error, but every route must agree (judged by the auto-vs-explicit rule below)
            let alt = match rng.below(3) {
                0 => replace_nth(t, "\"player_one\": true", "\"player_one\": true, \"player_one\": false", k),
                1 => replace_nth(t, "{\"terminal\": ", "{\"terminal\": 7, \"terminal\": ", k),
                _ => replace_nth(t, "\"prob\": ", "\"prob\": 9, \"prob\": ", k),
            };
            push("field-stated-twice", alt, Expect::DontCare("duplicate-json-key"));
        }
        16 | 17 => {
            // a complete valid game followed by more data: not one JSON document
            let tail = *rng.pick(&["}", "]", " 1", "\n{}", "\n// trailing comment\n", "\n\"x\"", ",", "\n{\"terminal\": 0}", "\nnull", "x"]);
            let second = if rng.chance(0.2) { t.clone() } else { tail.to_string() };
            push("trailing-data-after-the-game", Some(format!("{}{}", t, second)), Expect::Reject(perr));
        }
        0 => {
            let cut = 1 + rng.below(t.len().saturating_sub(2).max(1));
            let mut cut = cut.min(t.len() - 1);
            while !t.is_char_boundary(cut) {
                cut -= 1;
            }
            push("truncated", Some(t[..cut].to_string()), Expect::Reject(perr));
        }
        1 => push("prob-field-dropped", replace_nth(t, "\"prob\": ", "\"x\": ", k), Expect::Reject(perr)),
        2 => push("state-field-renamed", replace_nth(t, "\"state\": ", "\"State\": ", k), Expect::Reject(perr)),
        3 => push("player_one-field-dropped", replace_nth(t, "\"player_one\": ", "\"who\": ", k), Expect::Reject(perr)),
        4 => push("actions-field-renamed", replace_nth(t, "\"actions\": ", "\"moves\": ", k), Expect::Reject(perr)),
        5 => push("prob-is-string", replace_nth(t, "\"prob\": ", "\"prob\": \"0.5\", \"was\": ", k), Expect::Reject(perr)),
        6 => push("player_one-is-number", replace_nth(t, "\"player_one\": true", "\"player_one\": 1", k).or_else(|| replace_nth(t, "\"player_one\": false", "\"player_one\": 0", k)), Expect::Reject(perr)),
        7 => push("terminal-is-string", replace_nth(t, "{\"terminal\": ", "{\"terminal\": \"1\", \"was\": ", k), Expect::Reject(perr)),
        8 if rng.chance(0.3) && t.contains("\"prob\": ") => {
            // every weight of every chance node negative: ratios still look like distributions
            push("all-probs-negative", Some(t.replace("\"prob\": ", "\"prob\": -")), Expect::Reject(vec![GAME_ERR]));
        }
        8 => {
            let bad = *rng.pick(&["0", "-1", "-0.0", "0.0"]);
            push("prob-not-positive", replace_nth(t, "\"prob\": ", &format!("\"prob\": {}, \"was\": ", bad), k), Expect::Reject(vec![GAME_ERR]));
        }
        9 => push("terminal-overflows", replace_nth(t, "{\"terminal\": ", "{\"terminal\": 1e999, \"was\": ", k), Expect::Reject(if arg == "auto" && ext != "json" { vec![AUTO_ERR] } else { vec![JSON_ERR, GAME_ERR] })),
        10 => push("extra-unknown-field", replace_nth(t, "{\"terminal\": ", "{\"note\": 3, \"terminal\": ", k), Expect::DontCare("unknown-extra-json-field")),
        11 => push("chance-infoset-dropped(valid)", replace_nth(t, "\"infoset\": null", "\"other\": null", k), Expect::DontCare("unknown-extra-json-field")),
        12 => push("wrong-format-selected", Some(t.clone()), Expect::Reject(vec![GAMBIT_ERR])),
        13 => push("garbage", Some((*rng.pick(&["", "   ", "random", "{", "[]", "null", "{\"terminal\": }", "\u{0}\u{1}"])).to_string()), Expect::Reject(perr)),
        14 | 15 if arg == "json" || ext == "json" => {
            // a byte sequence that is not UTF-8 inside a quoted name: not JSON at all
            let bytes = t.as_bytes();
            let mut inside = false;
            let mut esc = false;
            let mut spots: Vec<usize> = Vec::new();
            for (i, b) in bytes.iter().enumerate() {
                if esc {
                    esc = false;
                    continue;
                }
                match b {
                    b'\\' if inside => esc = true,
                    b'"' => inside = !inside,
                    _ if inside && b.is_ascii_alphanumeric() => spots.push(i),
                    _ => {}
                }
            }
            if !spots.is_empty() {
                let at = spots[k % spots.len()];
                let bad: &[u8] = *rng.pick(&[&[0xffu8][..], &[0xe9], &[0xc3], &[0xc0, 0xaf], &[0xed, 0xa0, 0x80]]);
                let mut raw = bytes[..at].to_vec();
                raw.extend_from_slice(bad);
                raw.extend_from_slice(&bytes[at + 1..]);
                out.push(Case { name: "json:invalid-utf8-inside-a-name".into(), text: String::from_utf8_lossy(&raw).to_string(), raw: Some(raw), format_arg: arg, ext, expect: Expect::Reject(if arg == "auto" { vec![JSON_ERR, AUTO_ERR] } else { vec![JSON_ERR] }) });
            }
        }
        _ => {
            // contract violations of C11 expressed in the DSL
            let mut bad = tree.clone();
            let m = *rng.pick(&[0usize, 5, 6, 8, 10, 11, 12]);
            if mutate::mutate(rng, &mut bad, m) {
                let v = validate(&bad);
                if !v.valid() && !v.single_outcome_share {
                    let text = files::write_json(rng, &bad).text;
                    push(&format!("contract:{}", mutate::mutation_name(m)), Some(text), Expect::Reject(vec![GAME_ERR]));
                }
            }
        }
    }
    // wrong-format case needs its own argument
    if let Some(c) = out.last_mut() {
        if c.name == "json:wrong-format-selected" {
            c.format_arg = "gambit";
        }
    }
}

fn efg_cases(rng: &mut Rng, tree: &HNode, out: &mut Vec<Case>) {
    let mut opts = EfgOpts::random(rng, true);
    let arg = *rng.pick(&["gambit", "auto"]);
    let ext = if arg == "auto" { *rng.pick(&["efg", "txt"]) } else { *rng.pick(&["efg", "txt", "json"]) };
    let perr = if arg == "auto" && ext == "efg" { vec![GAMBIT_ERR] } else { parse_err_for(Format::Efg, arg) };
    let kind = rng.below(20);
    if kind == 9 {
        opts.naming = Naming::NumberClash;
    }
    if kind == 10 {
        opts.naming = Naming::Duplicate;
    }
    if kind == 18 || kind == 19 {
        opts.interior = true;
        opts.uncompensated = true;
    }
    if kind == 11 || kind == 12 {
        opts.constant = *rng.pick(&[0.0, 10.0]);
        opts.interior = false;
        opts.share_outcomes = false;
        opts.number_forms = false;
    }
    let fg = files::write_efg(rng, tree, &opts);
    let t = &fg.text;
    let flat = Flat::new(&fg.tree);
    let k = rng.next() as usize;
    let mut push = |name: &str, text: Option<String>, expect: Expect| {
        if let Some(text) = text {
            out.push(Case { name: format!("gambit:{}", name), text, raw: None, format_arg: arg, ext, expect });
        }
    };
    match kind {
        0 => {
            // cut at a token boundary strictly inside the tree
            let body = t.find("\n\n").map(|i| i + 2).unwrap_or(0);
            let spaces: Vec<usize> = t.match_indices(|c: char| c == ' ' || c == '\n').map(|(i, _)| i).filter(|i| *i > body && *i + 2 < t.trim_end().len()).collect();
            if !spaces.is_empty() {
                let cut = spaces[k % spaces.len()];
                push("truncated-at-token", Some(t[..cut].to_string()), Expect::Reject(perr));
            }
        }
        1 => push("one-player", Some(t.replace("{ \"Player 1\" \"Player 2\" }", "{ \"Player 1\" }")), Expect::Reject(if arg == "auto" && ext != "efg" { vec![AUTO_ERR, "players", GAMBIT_ERR] } else { vec!["players", GAMBIT_ERR] })),
        2 => {
            // three players with three payoffs everywhere
            let mut s = t.replace("{ \"Player 1\" \"Player 2\" }", "{ \"Player 1\" \"Player 2\" \"Player 3\" }");
            // add a third payoff to every payoff list
            let mut outp = String::new();
            for line in s.lines() {
                if let (Some(a), Some(b)) = (line.rfind('{'), line.rfind('}')) {
                    if (line.starts_with("t ") || line.contains("} ") ) && a < b && !line.contains("Player") && line[a..b].chars().any(|c| c.is_ascii_digit()) && !line[a..b].contains('"') {
                        outp.push_str(&format!("{} 0 }}{}\n", line[..b].trim_end(), &line[b + 1..]));
                        continue;
                    }
                }
                outp.push_str(line);
                outp.push('\n');
            }
            s = outp;
            push("three-players", Some(s), Expect::Reject(vec!["players"]));
        }
        3 => push("header-version", Some(t.replacen("EFG 2 R", *rng.pick(&["EFG 3 R", "NFG 1 R", "EFG 2 D", "efg 2 r"]), 1)), Expect::Reject(perr)),
        4 => push("action-list-dropped", replace_nth(t, " { \"a", " \"a", k), Expect::Reject(perr)),
        5 => {
            // a terminal without payoffs
            let lines: Vec<&str> = t.lines().collect();
            let terms: Vec<usize> = (0..lines.len()).filter(|i| lines[*i].starts_with("t ")).collect();
            if !terms.is_empty() {
                let i = terms[k % terms.len()];
                let cut = lines[i].rfind('{').unwrap();
                let mut l2: Vec<String> = lines.iter().map(|s| s.to_string()).collect();
                l2[i] = lines[i][..cut].trim_end().to_string();
                push("terminal-without-payoffs", Some(l2.join("\n") + "\n"), Expect::Reject(perr));
            }
        }
        6 => {
            // chance probabilities that do not sum to one
            push("chance-not-a-distribution", replace_nth(t, "\"o00\" ", "\"o00\" 1/97 \"oxx\" ", k), if t.contains("\"o00\" ") { Expect::Reject(perr) } else { Expect::DontCare("no-chance-node") });
        }
        7 => {
            // zero / negative chance probability that still sums to one: a contract violation
            let c = format!("c \"\" 999 {{ \"o00\" {} \"o01\" {} }} 0\n", *rng.pick(&["0", "-1/2", "0.0"]), "1");
            let fixed = if c.contains("-1/2") { c.replace("\"o01\" 1 ", "\"o01\" 3/2 ") } else { c };
            // wrap the whole tree: new root chance node with the old tree twice
            let body_at = t.find("\n\n").map(|i| i + 2).unwrap_or(0);
            let (head, body) = t.split_at(body_at);
            // the duplicated body reuses outcome numbers with identical payoffs (allowed) but also
            // infosets: both copies follow the same (empty) own history, so recall is intact
            push("chance-probability-not-positive", Some(format!("{}{}{}{}", head, fixed, body, body)), Expect::Reject(vec![GAME_ERR]));
        }
        9 => {
            let applicable = fg.features.contains(&"unnamed-infoset-number-is-another-infosets-name");
            push("unnamed-number-clashes-with-name", Some(t.clone()), if applicable { Expect::Reject(vec![DUP_ERR]) } else { Expect::Accept });
        }
        10 => {
            let applicable = fg.features.contains(&"duplicate-explicit-infoset-name");
            // two infoset numbers of one player with the same explicit name: conflicting names
            push("two-infosets-share-an-explicit-name", Some(t.clone()), if applicable { Expect::Reject(vec![DUP_ERR, GAME_ERR]) } else { Expect::Accept });
        }
        11 | 12 => {
            // perturb one terminal's player-two payoff relative to the documented 0.1% tolerance
            let range = flat.payoff_range();
            let lines: Vec<&str> = t.lines().collect();
            let terms: Vec<usize> = (0..lines.len()).filter(|i| lines[*i].starts_with("t ")).collect();
            if range > 0.0 && !terms.is_empty() {
                let factor = *rng.pick(&[0.5, 1.01, 2.0, 100.0]);
                let delta = factor * range / 500.0;
                let i = terms[k % terms.len()];
                let (a, b) = (lines[i].rfind('{').unwrap(), lines[i].rfind('}').unwrap());
                let nums: Vec<f64> = lines[i][a + 1..b].replace(',', " ").split_whitespace().filter_map(|x| x.parse().ok()).collect();
                if nums.len() == 2 {
                    let mut l2: Vec<String> = lines.iter().map(|s| s.to_string()).collect();
                    l2[i] = format!("{}{{ {:?} {:?} }}", &lines[i][..a], nums[0], nums[1] + delta);
                    // half of the cases: a large zero-sum outcome at the root (an ante every play
                    // passes through). It moves every path total of player one by the same amount,
                    // so the payoff range the documented tolerance refers to is unchanged - but the
                    // range of the numbers *written in the file* is 256 times larger
                    let mut ante = "";
                    if rng.chance(0.5) && range > 1e-3 && range < 1e6 {
                        if let Some(r) = (0..l2.len()).find(|j| l2[*j].starts_with("c ") || l2[*j].starts_with("p ")) {
                            if l2[r].ends_with("} 0") {
                                let big = 2f64.powi(range.log2().ceil() as i32 + 8);
                                let cut = l2[r].len() - 1;
                                // (the format has an outcome name at player and terminal nodes only)
                                let label = if l2[r].starts_with("p ") { "\"ante\" " } else { "" };
                                l2[r] = format!("{}99999 {}{{ {:?} {:?} }}", &l2[r][..cut], label, big, -big);
                                ante = "-with-root-ante";
                            }
                        }
                    }
                    let name = format!("payoff-sum-perturbed{}-x{}", ante, factor);
                    push(&name, Some(l2.join("\n") + "\n"), if factor < 1.0 { Expect::Accept } else { Expect::Reject(vec![SUM_ERR]) });
                }
            }
        }
        18 | 19 => {
            // an interior outcome (stated or attached by number only) that the terminals below it
            // do not compensate; judged on the path totals the writer recorded, with the
            // documented 0.1% tolerance and a don't-care band around it
            let unc = fg.features.iter().find(|f| f.starts_with("uncompensated-interior-outcome")).cloned();
            if let (Some(f), false) = (unc, fg.totals.is_empty()) {
                let half: Vec<f64> = fg.totals.iter().map(|(a, b)| (a + b) / 2.0).collect();
                let spread = half.iter().cloned().fold(f64::NEG_INFINITY, f64::max) - half.iter().cloned().fold(f64::INFINITY, f64::min);
                let one_range = fg.totals.iter().map(|t| t.0).fold(f64::NEG_INFINITY, f64::max) - fg.totals.iter().map(|t| t.0).fold(f64::INFINITY, f64::min);
                let name = if f.ends_with("by-reference") { "uncompensated-interior-outcome-by-reference" } else { "uncompensated-interior-outcome-stated" };
                let expect = if spread * 1000.0 > one_range * 2.0 {
                    Expect::Reject(vec![SUM_ERR])
                } else if spread * 1000.0 < one_range * 0.5 {
                    Expect::Accept
                } else {
                    Expect::DontCare("constant-sum-spread-near-the-documented-tolerance")
                };
                push(name, Some(t.clone()), expect);
            }
        }
        13 => push("wrong-format-selected", Some(t.clone()), Expect::Reject(vec![JSON_ERR])),
        8 | 14 => push("non-finite-payoff", replace_nth(t, "{ ", "{ 1e999 ", k).and_then(|s| {
            // keep the list at two entries: replace the first number of that list instead
            let _ = s;
            let lines: Vec<&str> = t.lines().collect();
            let terms: Vec<usize> = (0..lines.len()).filter(|i| lines[*i].starts_with("t ")).collect();
            if terms.is_empty() {
                return None;
            }
            let i = terms[k % terms.len()];
            let a = lines[i].rfind('{').unwrap();
            let mut l2: Vec<String> = lines.iter().map(|s| s.to_string()).collect();
            l2[i] = format!("{}{{ 1e999 -1e999 }}", &lines[i][..a]);
            Some(l2.join("\n") + "\n")
        }), Expect::Reject(vec!["non-finite", SUM_ERR])),
        15 => {
            // duplicate action name inside one node (contract: actions must be distinct)
            let lines: Vec<&str> = t.lines().collect();
            let pls: Vec<usize> = (0..lines.len()).filter(|i| lines[*i].starts_with("p ") && lines[*i].matches("\"a").count() >= 2).collect();
            if !pls.is_empty() {
                // rename action a1 to a0 in every node of that infoset (same infoset number) so the parser's multiset check passes
                let i = pls[k % pls.len()];
                let toks: Vec<&str> = lines[i].split_whitespace().collect();
                let key = format!("p \"\" {} {} ", toks[2], toks[3]);
                let l2: Vec<String> = lines.iter().map(|s| if s.starts_with(&key) { s.replacen("\"a1\"", "\"a0\"", 1) } else { s.to_string() }).collect();
                // (names decorated with quotes do not match the pattern: nothing changed, no case)
                if l2.iter().zip(lines.iter()).any(|(a, b)| a != b) {
                    push("duplicate-action-in-node", Some(l2.join("\n") + "\n"), Expect::Reject(vec![GAME_ERR]));
                }
            }
        }
        16 => push("garbage", Some((*rng.pick(&["", "EFG", "EFG 2 R \"\" { \"a\" \"b\" }", "t \"\" 1 { 0 0 }", "\u{0}"])).to_string()), Expect::Reject(perr)),
        _ => {
            // imperfect recall expressed in Gambit: relabel across branches
            let mut bad = tree.clone();
            let m = *rng.pick(&[10usize, 11]);
            if mutate::mutate(rng, &mut bad, m) {
                let v = validate(&bad);
                if v.violated.len() == 1 && v.violated.contains(&crate::validate::Rule::ImperfectRecall) {
                    let mut o = EfgOpts::plain();
                    o.naming = Naming::Named;
                    let text = files::write_efg(rng, &bad, &o).text;
                    push(&format!("contract:{}", mutate::mutation_name(m)), Some(text), Expect::Reject(vec![GAME_ERR]));
                }
            }
        }
    }
    if let Some(c) = out.last_mut() {
        if c.name == "gambit:wrong-format-selected" {
            c.format_arg = "json";
        }
    }
    // now and then additionally: a byte sequence that is not UTF-8 inside a quoted label
    if rng.chance(0.08) {
        let bytes = t.as_bytes();
        let mut inside = false;
        let mut esc = false;
        let mut spots: Vec<usize> = Vec::new();
        for (i, b) in bytes.iter().enumerate() {
            if esc {
                esc = false;
                continue;
            }
            match b {
                b'\\' if inside => esc = true,
                b'"' => inside = !inside,
                _ if inside && b.is_ascii_alphanumeric() => spots.push(i),
                _ => {}
            }
        }
        if !spots.is_empty() {
            let at = spots[k % spots.len()];
            let bad: &[u8] = *rng.pick(&[&[0xffu8][..], &[0xe9], &[0xc3], &[0xc0, 0xaf]]);
            let mut raw = bytes[..at].to_vec();
            raw.extend_from_slice(bad);
            raw.extend_from_slice(&bytes[at + 1..]);
            let expect = Expect::Reject(if arg == "auto" { vec![GAMBIT_ERR, AUTO_ERR] } else { vec![GAMBIT_ERR] });
            out.push(Case { name: "gambit:invalid-utf8-inside-a-label".into(), text: String::from_utf8_lossy(&raw).to_string(), raw: Some(raw), format_arg: arg, ext, expect });
        }
    }
}

pub fn run(ctx: &mut Ctx) {
    let quick = ctx.quick();
    let n = if quick { 14_000 } else { 700_000 };
    let cli_path = ctx.cli.clone().expect("--cli");
    let scratch = ctx.scratch.clone();
    ctx.run_cases(n, |ctx, idx, rng| {
        let size = *rng.pick(&[0usize, 1, 1]);
        let (desc, tree) = files::cli_game(rng, size, true);
        // a quarter of the games carry names with quotes, backslashes and multi-byte characters
        let tree = if rng.chance(0.25) { files::fancy_names_with(&tree, "\u{e9}\u{3042}\u{3044}\u{1f600}") } else { tree };
        let mut cases: Vec<Case> = Vec::new();
        if rng.chance(0.5) {
            json_cases(rng, &tree, &mut cases);
        } else {
            efg_cases(rng, &tree, &mut cases);
        }
        for c in cases {
            let path = format!("{}/c17-{}-{}.{}", scratch, ctx.shard, idx % 64, c.ext);
            match &c.raw {
                Some(raw) => std::fs::write(&path, raw).unwrap(),
                None => std::fs::write(&path, &c.text).unwrap(),
            }
            let via_stdin = rng.chance(0.2);
            let mut args: Vec<String> = vec!["-m".into(), "full".into(), "-t".into(), "3".into(), "-p".into(), "1".into()];
            if c.format_arg != "auto" || rng.chance(0.5) {
                args.extend(["--input-format".to_string(), c.format_arg.to_string()]);
            }
            let opath = format!("{}/c17-{}-{}.out", scratch, ctx.shard, idx % 64);
            let to_file = rng.chance(0.2);
            if to_file {
                args.extend(["-o".to_string(), opath.clone()]);
            }
            // stdin has no extension: auto then really auto-detects
            let input_bytes: &[u8] = c.raw.as_deref().unwrap_or(c.text.as_bytes());
            let (stdin, eff_ext) = if via_stdin { (Some(input_bytes), "") } else { (None, c.ext) };
            if !via_stdin {
                args.extend(["-i".to_string(), path.clone()]);
            }
            ctx.mark(idx, &c.name);
            let r = cli::run_bytes(&cli_path, &args, stdin, Duration::from_secs(60));
            let file_out = if to_file { std::fs::read_to_string(&opath).unwrap_or_default() } else { String::new() };
            let _ = std::fs::remove_file(&opath);
            let _ = std::fs::remove_file(&path);
            let detail = || json!({"input": c.text.chars().take(6000).collect::<String>(), "args": args, "corruption": c.name, "desc": desc, "stderr": r.stderr.chars().take(800).collect::<String>(), "stdout": r.stdout.chars().take(400).collect::<String>(), "via_stdin": via_stdin});
            if r.timed_out {
                ctx.inconclusive("cli-watchdog");
                continue;
            }
            // route consistency: auto-detection means "try the JSON reader, then the Gambit reader",
            // so whatever auto accepts must be accepted under one of the explicit formats
            if r.status == Some(0) && c.format_arg == "auto" && !matches!(c.expect, Expect::Accept) {
                let explicit = |fmt: &str| {
                    let a: Vec<String> = vec!["-m".into(), "full".into(), "-t".into(), "3".into(), "-p".into(), "1".into(), "--input-format".into(), fmt.into()];
                    cli::run_bytes(&cli_path, &a, Some(input_bytes), Duration::from_secs(60))
                };
                let (rj, rg) = (explicit("json"), explicit("gambit"));
                ctx.count("auto-accepted-inputs-cross-checked-against-explicit-formats", 1);
                if !rj.timed_out && !rg.timed_out && rj.status != Some(0) && rg.status != Some(0) {
                    ctx.violation(
                        idx,
                        &format!("C17:auto-accepts-what-both-explicit-formats-reject:{}", c.name),
                        &format!("{}: with auto-detection cfr exited 0 and printed a result, but the same bytes are rejected under --input-format json ({}) and under --input-format gambit", c.name, rj.stderr.lines().find(|l| l.contains("error") || l.contains("Error")).unwrap_or("").chars().take(160).collect::<String>()),
                        detail(),
                    );
                    return;
                }
            }
            ctx.count(&format!("corruption:{}", c.name.split("-x").next().unwrap_or(&c.name)), 1);
            let printed_object = r.stdout.trim_start().starts_with('{') || file_out.trim_start().starts_with('{');
            match &c.expect {
                Expect::DontCare(why) => {
                    ctx.dont_care(why);
                }
                Expect::Accept => {
                    if r.status == Some(0) && printed_object {
                        ctx.count("valid-variants-accepted", 1);
                        ctx.ok(mix(crate::rng::hash_str(&c.text) ^ crate::rng::hash_str(&c.name)), true);
                    } else {
                        ctx.violation(idx, &format!("C17:valid-variant-rejected:{}", c.name), &format!("{} should be accepted but cfr exited with {:?}: {}", c.name, r.status, r.stderr.lines().next().unwrap_or("")), detail());
                        return;
                    }
                }
                Expect::Reject(wants) => {
                    // the expected category depends on the route when auto-detecting without a telling extension
                    let mut wants: Vec<&str> = wants.clone();
                    if via_stdin && c.format_arg == "auto" && (wants == vec![JSON_ERR] || wants == vec![GAMBIT_ERR]) {
                        wants = vec![AUTO_ERR];
                    }
                    let _ = eff_ext;
                    if r.signal {
                        ctx.violation(idx, &format!("C17:killed-by-signal:{}", c.name), &format!("{}: cfr died from a signal instead of printing a diagnostic", c.name), detail());
                        return;
                    }
                    if r.status == Some(0) {
                        ctx.violation(idx, &format!("C17:accepted:{}", c.name), &format!("{}: cfr exited 0{} for an input that is not a valid game", c.name, if printed_object { " and printed a result object" } else { "" }), detail());
                        return;
                    }
                    if printed_object {
                        ctx.violation(idx, &format!("C17:result-printed-despite-error:{}", c.name), &format!("{}: non-zero exit but a result object was printed", c.name), detail());
                        return;
                    }
                    let documented = [JSON_ERR, GAMBIT_ERR, AUTO_ERR, GAME_ERR, DUP_ERR, SUM_ERR, "players", "non-finite"];
                    if !documented.iter().any(|w| r.stderr.contains(w)) {
                        ctx.violation(idx, &format!("C17:undocumented-diagnostic:{}", c.name), &format!("{}: stderr names no documented error category: {:?}", c.name, r.stderr.lines().next().unwrap_or("")), detail());
                        return;
                    }
                    if !wants.iter().any(|w| r.stderr.contains(w)) {
                        // a documented category, but not the one this corruption belongs to
                        ctx.count(&format!("other-documented-category:{}", c.name), 1);
                        ctx.sample(12, || json!({"corruption": c.name, "expected_one_of": wants, "stderr_first_line": r.stderr.lines().next().unwrap_or("")}));
                    }
                    ctx.ok(mix(crate::rng::hash_str(&c.text) ^ crate::rng::hash_str(&c.name)), true);
                    ctx.sample(4, || json!({"corruption": c.name, "args": args.join(" "), "exit": r.status, "stderr_first_lines": r.stderr.lines().take(2).collect::<Vec<_>>()}));
                }
            }
        }
    });
    ctx.finish(crate::report::extra(
        "cases = corrupted inputs to the shipped binary, each derived from a valid generated file, under --input-format {json,gambit,auto}, via -i file (extensions .json/.efg/.txt) or stdin, to stdout or -o file. A quarter of the games carry names with quotes, backslashes and multi-byte characters. JSON: a byte sequence that is not UTF-8 inside a quoted name (fed as raw bytes), truncation, trailing data after a complete game (stray bracket, second document, comment), dropped/renamed required fields, wrong types, prob in {0,-1,-0.0}, all weights negative, overflowing payoff literal, garbage/empty input, wrong format selected, C11 contract violations (empty chance/player, renamed action at one node, added/dropped action, forgotten own action, relabelling across branches) written in the DSL; extra unknown fields and fields stated twice are don't-care as such, but whatever auto-detection accepts must be accepted under one of the explicit formats (auto-vs-explicit rule). Gambit: a byte sequence that is not UTF-8 inside a quoted label, truncation at a token boundary, 1 or 3 players, wrong header, dropped action list, terminal without payoffs, chance list not summing to 1, zero/negative chance probability summing to 1, non-finite payoffs (1e999), unnamed infoset whose number is another infoset's explicit name (same player), two infoset numbers of one player with the same explicit name, one payoff perturbed by {0.5,1.01,2,100} x the documented 0.1% constant-sum tolerance (0.5x must be ACCEPTED; in half of these files a zero-sum outcome 256 x the payoff range sits at the root, which every play passes through and which leaves the range of path totals unchanged), an interior-node outcome with a non-zero pair sum (stated in place or attached by outcome number only, payoffs stated elsewhere) that the terminals below it do not compensate, duplicate action inside a node, imperfect recall, wrong format selected, garbage. Required for invalid input: non-zero exit status that is not a signal, no result object on stdout or in the -o file, and a diagnostic containing a documented category (#json-error, #gambit-error, #auto-error, #game-error, #duplicate-infosets, #constant-sum, 'players', 'non-finite'); a documented category other than the expected one is counted, not failed. distinct = hash(input text, corruption); non-trivial = every case.",
        &["validity of each corrupted input is known by construction (the harness knows what it broke); unknown extra JSON fields and duplicate JSON keys are don't-care"],
    ));
}
