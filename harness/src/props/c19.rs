//! C19: strategy distance is a well-defined, bounded, symmetric dissimilarity.
//! Monitor: algebraic laws at the API boundary over generated profile pairs and exponents, and
//! the two documented panic conditions.
use crate::bridge;
use crate::gen;
use crate::report::{catch, Ctx};
use crate::rng::mix;
use crate::tree::{Flat, Profile};
use serde_json::json;

fn max_diff(flat: &Flat, a: &Profile, b: &Profile, p: usize) -> f64 {
    let mut worst = 0.0f64;
    for (i, (x, y)) in a[p].iter().zip(b[p].iter()).enumerate() {
        if flat.info_actions[p][i].len() > 1 {
            for (u, v) in x.iter().zip(y.iter()) {
                worst = worst.max((u - v).abs());
            }
        }
    }
    worst
}

pub fn run(ctx: &mut Ctx) {
    let quick = ctx.quick();
    let n = if quick { 150_000 } else { 6_000_000 };
    let ps = [1e-3, 0.3, 0.5, 1.0, 1.5, 2.0, 10.0, 1e3, f64::INFINITY, 1e300, 1e-300];
    ctx.run_cases(n, |ctx, idx, rng| {
        let size = rng.below(3);
        let (desc, tree) = gen::any_game(rng, size);
        let Ok(game) = bridge::build(&tree) else {
            ctx.inconclusive("valid-tree-rejected(see C11)");
            return;
        };
        let flat = Flat::new(&tree);
        let multi = [0, 1].map(|p| flat.info_actions[p].iter().filter(|a| a.len() > 1).count());
        if multi[0] == 0 || multi[1] == 0 {
            ctx.count("games_where_a_player_has_no_multi_action_infoset", 1);
        }
        // pairs
        let ka = rng.below(gen::PROFILE_KINDS);
        let a = gen::random_profile(rng, &flat, ka);
        let kind = rng.below(5);
        let b = match kind {
            0 => a.clone(),
            1 => gen::random_profile(rng, &flat, 1), // pure
            2 => {
                // one infoset differs
                let mut b = a.clone();
                let p = rng.below(2);
                let cands: Vec<usize> = (0..b[p].len()).filter(|i| b[p][*i].len() > 1).collect();
                if !cands.is_empty() {
                    let i = *rng.pick(&cands);
                    b[p][i].rotate_left(1);
                }
                b
            }
            3 => {
                // disjoint supports: a pure on action 0, b pure on action 1 everywhere
                let mut b = a.clone();
                for p in 0..2 {
                    for v in b[p].iter_mut() {
                        if v.len() > 1 {
                            v.iter_mut().for_each(|x| *x = 0.0);
                            v[1] = 1.0;
                        }
                    }
                }
                b
            }
            _ => {
                let kb = rng.below(gen::PROFILE_KINDS);
                gen::random_profile(rng, &flat, kb)
            }
        };
        let a = if kind == 3 {
            let mut a2 = a.clone();
            for p in 0..2 {
                for v in a2[p].iter_mut() {
                    if v.len() > 1 {
                        v.iter_mut().for_each(|x| *x = 0.0);
                        v[0] = 1.0;
                    }
                }
            }
            a2
        } else {
            a
        };
        ctx.count(["pair:identical", "pair:random-vs-pure", "pair:one-infoset-differs", "pair:disjoint-supports", "pair:random"][kind], 1);
        let (Ok(sa_plain), Ok(sb)) = (bridge::inject(&game, &flat, &a), bridge::inject(&game, &flat, &b)) else {
            ctx.inconclusive("from_named-rejected-valid-profile(see C14)");
            return;
        };
        // a third of the cases: profile a is imported from a listing in which infosets are split
        // over several entries (legal: no restriction on order or repetition; the entries of one
        // infoset are merged). It is the same profile, so it must behave the same.
        let sa = if rng.chance(0.33) {
            let [one, two] = crate::tree::profile_to_named(&flat, &a);
            let mut split = |named: crate::tree::Named| -> crate::tree::Named {
                let mut out: crate::tree::Named = Vec::new();
                for (info, acts) in named {
                    if acts.len() >= 2 && rng.chance(0.6) {
                        let cut = rng.range(1, acts.len() - 1);
                        out.push((info.clone(), acts[..cut].to_vec()));
                        out.push((info, acts[cut..].to_vec()));
                    } else {
                        out.push((info, acts));
                    }
                }
                rng.shuffle(&mut out);
                out
            };
            let (s1, s2) = (split(one), split(two));
            match game.from_named([s1, s2]) {
                Ok(s) => {
                    ctx.count("profile-a-imported-from-a-listing-with-split-infosets", 1);
                    let d = catch(|| s.distance(&sa_plain, 1.0));
                    if !matches!(d, Ok([x, y]) if x == 0.0 && y == 0.0) {
                        ctx.violation(idx, "C19:distance:split-import-differs-from-merged-import", &format!("distance between one profile imported from a listing with split infosets and from the merged listing is {:?}, expected [0, 0] on {}", d, desc), json!({"game": tree.to_json(), "a": a}));
                        return;
                    }
                    s
                }
                Err(_) => {
                    ctx.inconclusive("from_named-rejected-split-listing(see C14)");
                    return;
                }
            }
        } else {
            sa_plain
        };
        for &p in &ps {
            let r = catch(|| (sa.distance(&sb, p), sb.distance(&sa, p), sa.distance(&sa, p)));
            let (dab, dba, daa) = match r {
                Ok(v) => v,
                Err(msg) => {
                    ctx.violation(idx, "C19:panic-on-valid-arguments", &format!("distance(p={}) panicked on two profiles of one game: {}", p, msg), json!({"game": tree.to_json(), "a": a, "b": b, "p": p}));
                    return;
                }
            };
            let mut bad: Option<(String, String)> = None;
            for pl in 0..2 {
                let d = dab[pl];
                let pclass = if p < 1.0 { "p<1" } else { "p>=1" };
                if d.is_nan() {
                    let why = if multi[pl] == 0 { "player-without-multi-action-infoset" } else { "other" };
                    bad = Some((format!("C19:distance:nan:{}", why), format!("distance component {} is NaN (p={}, player has {} multi-action infosets)", pl + 1, p, multi[pl])));
                } else if d < 0.0 || d > 1.0 + 1e-12 {
                    bad = Some((format!("C19:distance:out-of-range:{}", pclass), format!("distance component {} = {} outside [0,1] (p={}, pair kind {})", pl + 1, d, p, kind)));
                } else if daa[pl] != 0.0 {
                    bad = Some(("C19:distance:self-not-zero".into(), format!("distance(a,a)[{}] = {} (p={})", pl + 1, daa[pl], p)));
                } else if (dab[pl] - dba[pl]).abs() > 1e-12 * dab[pl].abs().max(1e-300) {
                    bad = Some(("C19:distance:asymmetric".into(), format!("distance(a,b)[{}] = {} but distance(b,a) = {} (p={})", pl + 1, dab[pl], dba[pl], p)));
                } else {
                    let diff = max_diff(&flat, &a, &b, pl);
                    if diff == 0.0 && d != 0.0 {
                        bad = Some(("C19:distance:nonzero-for-equal".into(), format!("player {} strategies coincide but distance is {} (p={})", pl + 1, d, p)));
                    } else if diff >= 1e-3 && p <= 10.0 && !(d > 0.0) {
                        bad = Some(("C19:distance:zero-for-different".into(), format!("player {} strategies differ by {} in some infoset but distance is {} (p={})", pl + 1, diff, d, p)));
                    } else if diff >= 1e-3 && p > 10.0 && !(d > 0.0) {
                        ctx.count("dontcare:positivity-underflow-at-large-p", 1);
                    }
                }
                if bad.is_some() {
                    break;
                }
            }
            if let Some((sig, msg)) = bad {
                ctx.violation(idx, &sig, &format!("{} on {}", msg, desc), json!({"game": tree.to_json(), "a": a, "b": b, "p": p, "dab": dab.map(crate::tree::fjson), "dba": dba.map(crate::tree::fjson)}));
                if !ctx.known.iter().any(|k| *k == sig) {
                    return;
                }
                continue;
            }
            ctx.max("max_component", dab[0].max(dab[1]));
            ctx.ok(mix(mix(tree.structural_hash() ^ crate::props::c01::profile_hash(&a)) ^ mix(crate::props::c01::profile_hash(&b) ^ p.to_bits())), multi[0] + multi[1] > 0);
            ctx.sample(3, || json!({"game": tree.brief(120), "pair": kind, "p": p, "distance": dab}));
        }
        // documented panics
        if idx % 4 == 0 {
            for &p in &[0.0, -1.0, f64::NAN, f64::NEG_INFINITY, -0.0] {
                let r = catch(|| sa.distance(&sb, p));
                ctx.count("panic-probes:non-positive-p", 1);
                if let Ok(d) = r {
                    ctx.violation(idx, "C19:no-panic-for-non-positive-p", &format!("distance with p={} returned {:?} instead of panicking", p, d), json!({"p": crate::tree::fjson(p)}));
                    return;
                } else {
                    ctx.ok(mix(idx ^ p.to_bits() ^ 0xdead), false);
                }
            }
            let other = bridge::build(&tree).unwrap();
            let so = bridge::inject(&other, &flat, &b).unwrap();
            let r = catch(|| sa.distance(&so, 1.0));
            ctx.count("panic-probes:different-game", 1);
            if let Ok(d) = r {
                ctx.violation(idx, "C19:no-panic-for-different-games", &format!("distance between profiles of two separately built (structurally equal) games returned {:?}", d), json!({"game": tree.to_json()}));
                return;
            } else {
                ctx.ok(mix(idx ^ 0xbeef), false);
            }
            // history: an existing value of the first game is overwritten in place with a profile
            // of the second (`clone_from`); from then on it is a profile of the second game: at
            // distance 0 from its source, and not comparable with profiles of the first any more
            let mut dst = sa.clone();
            dst.clone_from(&so);
            ctx.count("histories(clone_from across games, distance)", 1);
            match catch(|| dst.distance(&so, 1.0)) {
                Ok(d) if d == [0.0, 0.0] => {}
                Ok(d) => {
                    ctx.violation(idx, "C19:history:clone_from:distance-to-source-not-zero", &format!("a.clone_from(&b) then a.distance(&b, 1) = {:?}", d), json!({"game": tree.to_json()}));
                    return;
                }
                Err(m) => {
                    ctx.violation(idx, "C19:history:clone_from:panic-for-same-game", &format!("a.clone_from(&b) then a.distance(&b, 1) panicked although both are now profiles of one game: {}", m), json!({"game": tree.to_json()}));
                    return;
                }
            }
            if let Ok(d) = catch(|| dst.distance(&sa, 1.0)) {
                ctx.violation(idx, "C19:history:clone_from:no-panic-for-different-games", &format!("after a.clone_from(&b) with b of another game, a.distance(&profile of the first game) returned {:?} instead of panicking", d), json!({"game": tree.to_json()}));
                return;
            }
        }
    });
    ctx.finish(crate::report::extra(
        "cases = (game, profile pair, exponent): G1/G2 games incl. games where a player has no multi-action infoset x (a third of the cases: profile a imported from a listing whose infosets are split over several entries; it must be at distance 0 from its merged import) x pairs {identical, random vs pure, one infoset differs, disjoint supports, random} x p in {1e-3,0.3,0.5,1,1.5,2,10,1e3,+inf,1e300,1e-300}. Laws checked per player component: not NaN, within [0,1], distance(a,a)=0, zero when the player's strategies coincide, positive when they differ by >=1e-3 somewhere (p<=10; larger p is don't-care because |d|^p underflows), symmetric. Every fourth case also probes the documented panics: p in {0,-1,NaN,-inf,-0} and two separately built copies of the same tree, followed by a history step: a value of the first game overwritten with clone_from by a profile of the second must be at distance 0 from its source and panic against profiles of the first. distinct = hash(tree, both profiles, p); non-trivial = some player has a multi-action infoset.",
        &["NaN is treated as 'not positive' for the exponent"],
    ));
}
