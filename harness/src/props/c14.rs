//! C14: strategy import validates, normalises, and both import paths agree.
//! Monitor: reference model O4 (import rules: last write wins, coverage, normalisation) plus a
//! differential of from_named against from_named_eq on every candidate.
use crate::bridge::{self, G};
use crate::gen;
use crate::report::{catch, Ctx};
use crate::rng::{mix, Rng};
use crate::tree::{Flat, Named};
use cfr::StratError;
use serde_json::json;
use std::collections::BTreeSet;

#[derive(Debug, Default)]
struct Spec {
    violated: BTreeSet<String>,
    /// expected dense probabilities per multi-action infoset (by flat infoset id) when valid
    expected: Vec<Vec<f64>>,
    /// a single-action infoset mentioned with an empty action list: coverage undecided by the docs
    empty_single: bool,
    /// some infoset total overflows to +inf
    overflow: bool,
}

/// O4: what the documentation says importing `cand` for player `p` must do
fn spec(flat: &Flat, p: usize, cand: &Named) -> Spec {
    let mut out = Spec::default();
    let n = flat.info_names[p].len();
    let mut weights: Vec<Vec<f64>> = (0..n).map(|i| vec![0.0; flat.info_actions[p][i].len()]).collect();
    let mut single_seen = vec![false; n];
    let mut single_empty = vec![false; n];
    for (info, acts) in cand {
        let Some(&iid) = flat.name_to_info[p].get(info) else {
            out.violated.insert("InvalidInfoset".into());
            continue;
        };
        let names = &flat.info_actions[p][iid];
        if names.len() == 1 && acts.is_empty() {
            single_empty[iid] = true;
        }
        for (a, w) in acts {
            let legal = names.iter().position(|x| x == a);
            let wok = *w >= 0.0 && w.is_finite();
            if legal.is_none() {
                out.violated.insert("InvalidAction".into());
            }
            if !wok {
                out.violated.insert("InvalidProbability".into());
            }
            if let (Some(k), true) = (legal, wok) {
                weights[iid][k] = *w;
                if names.len() == 1 {
                    single_seen[iid] = true;
                }
            }
        }
    }
    for iid in 0..n {
        let names = &flat.info_actions[p][iid];
        if names.len() == 1 {
            if !single_seen[iid] {
                if single_empty[iid] {
                    out.empty_single = true;
                } else {
                    out.violated.insert("UninitializedInfoset".into());
                }
            }
            out.expected.push(vec![1.0]);
        } else {
            let tot: f64 = weights[iid].iter().sum();
            if tot == 0.0 {
                out.violated.insert("UninitializedInfoset".into());
            }
            if tot.is_infinite() {
                // finite weights whose sum overflows: the profile is still weight / total, with the
                // total formed after scaling down
                out.overflow = true;
                let down = 2.0 * weights[iid].len() as f64;
                let t2: f64 = weights[iid].iter().map(|w| w / down).sum();
                out.expected.push(weights[iid].iter().map(|w| (w / down) / t2).collect());
            } else {
                out.expected.push(weights[iid].iter().map(|w| w / tot).collect());
            }
        }
    }
    out
}

const SPECIAL: [f64; 11] = [-1.0, -0.0, 0.0, 5e-324, 1e-300, 1.0, 1e300, f64::NAN, f64::INFINITY, f64::NEG_INFINITY, 3.5];

fn candidate(rng: &mut Rng, flat: &Flat, p: usize) -> (Named, Vec<&'static str>) {
    let mut tags = Vec::new();
    let kind = rng.below(gen::PROFILE_KINDS);
    let prof = gen::random_profile(rng, flat, kind);
    let scale = *rng.pick(&[1.0, 1.0, 7.0, 1e-3, 1e200, 1e-200]);
    let mut cand: Named = flat.info_names[p]
        .iter()
        .enumerate()
        .map(|(i, name)| (name.clone(), flat.info_actions[p][i].iter().cloned().zip(prof[p][i].iter().map(|x| x * scale)).collect()))
        .collect();
    if scale != 1.0 {
        tags.push("unnormalised");
    }
    let nmut = rng.below(4);
    for _ in 0..nmut {
        match rng.below(14) {
            0 => {
                rng.shuffle(&mut cand);
                for (_, acts) in cand.iter_mut() {
                    rng.shuffle(acts);
                }
                tags.push("shuffled");
            }
            1 => {
                // duplicate one action entry with a different weight (later overrides earlier)
                if !cand.is_empty() {
                    let i = rng.below(cand.len());
                    if !cand[i].1.is_empty() {
                        let k = rng.below(cand[i].1.len());
                        let mut e = cand[i].1[k].clone();
                        e.1 = *rng.pick(&[0.0, 0.25, 2.0, 1e-300]);
                        cand[i].1.push(e);
                        tags.push("duplicate-action-entry");
                    }
                }
            }
            2 => {
                // repeat a whole infoset with a subset of its actions
                if !cand.is_empty() {
                    let i = rng.below(cand.len());
                    let mut e = cand[i].clone();
                    e.1.retain(|_| rng.chance(0.5));
                    for a in e.1.iter_mut() {
                        a.1 = rng.unit();
                    }
                    cand.push(e);
                    tags.push("repeated-infoset");
                }
            }
            3 => {
                if !cand.is_empty() {
                    let i = rng.below(cand.len());
                    cand.remove(i);
                    tags.push("dropped-infoset");
                }
            }
            4 => {
                cand.push(("no-such-infoset".to_string(), vec![("a0".to_string(), 1.0)]));
                tags.push("unknown-infoset");
            }
            5 => {
                // an infoset of the other player
                let o = 1 - p;
                if !flat.info_names[o].is_empty() {
                    let i = rng.below(flat.info_names[o].len());
                    cand.push((flat.info_names[o][i].clone(), flat.info_actions[o][i].iter().map(|a| (a.clone(), 1.0)).collect()));
                    tags.push("other-players-infoset");
                }
            }
            6 => {
                if !cand.is_empty() {
                    let i = rng.below(cand.len());
                    cand[i].1.push(("no-such-action".to_string(), *rng.pick(&[0.0, 1.0])));
                    tags.push("illegal-action");
                }
            }
            7 | 8 => {
                if !cand.is_empty() {
                    let i = rng.below(cand.len());
                    if !cand[i].1.is_empty() {
                        let k = rng.below(cand[i].1.len());
                        cand[i].1[k].1 = *rng.pick(&SPECIAL);
                        tags.push("special-weight");
                    }
                }
            }
            9 => {
                if !cand.is_empty() {
                    let i = rng.below(cand.len());
                    for a in cand[i].1.iter_mut() {
                        a.1 = *rng.pick(&[0.0, -0.0]);
                    }
                    tags.push("all-zero-infoset");
                }
            }
            10 => {
                // omit some actions (valid: unspecified means zero)
                if !cand.is_empty() {
                    let i = rng.below(cand.len());
                    if cand[i].1.len() > 1 {
                        let k = rng.below(cand[i].1.len());
                        cand[i].1.remove(k);
                        tags.push("omitted-action");
                    }
                }
            }
            11 => {
                // empty action list
                if !cand.is_empty() {
                    let i = rng.below(cand.len());
                    cand[i].1.clear();
                    tags.push("empty-action-list");
                }
            }
            12 => {
                // huge weights whose total overflows
                if !cand.is_empty() {
                    let i = rng.below(cand.len());
                    if cand[i].1.len() > 1 {
                        for a in cand[i].1.iter_mut() {
                            a.1 = f64::MAX / 1.5;
                        }
                        tags.push("overflowing-total");
                    }
                }
            }
            _ => {
                // wrong action on a single-action infoset
                let singles: Vec<usize> = (0..cand.len()).filter(|i| cand[*i].1.len() == 1).collect();
                if !singles.is_empty() {
                    let i = *rng.pick(&singles);
                    cand[i].1[0].0 = "wrong".to_string();
                    tags.push("wrong-single-action");
                }
            }
        }
    }
    (cand, tags)
}

fn named_hash(c: &Named) -> u64 {
    let mut h = 5u64;
    for (i, acts) in c {
        h = mix(h ^ crate::rng::hash_str(i));
        for (a, w) in acts {
            h = mix(h ^ crate::rng::hash_str(a) ^ mix(w.to_bits()));
        }
    }
    h
}

fn err_name(e: StratError) -> String {
    format!("{:?}", e)
}

pub fn run(ctx: &mut Ctx) {
    let quick = ctx.quick();
    let n = if quick { 60_000 } else { 3_000_000 };
    ctx.run_cases(n, |ctx, idx, rng| {
        let size = rng.below(3);
        let (desc, tree) = gen::any_game(rng, size);
        let Ok(game): Result<G, _> = bridge::build(&tree) else {
            ctx.inconclusive("valid-tree-rejected(see C11)");
            return;
        };
        let flat = Flat::new(&tree);
        // the same game with names whose Hash collides almost always (equal names still compare
        // equal): the hashing importer must not depend on hashes being distinct
        let weak_game = if rng.chance(0.5) && bridge::weak_presentable(&tree) { bridge::build_weak(&tree).ok() } else { None };
        for _ in 0..8 {
            let (c0, t0) = candidate(rng, &flat, 0);
            let (c1, t1) = candidate(rng, &flat, 1);
            let specs = [spec(&flat, 0, &c0), spec(&flat, 1, &c1)];
            let mut violated: BTreeSet<String> = specs[0].violated.clone();
            violated.extend(specs[1].violated.iter().cloned());
            let tags: Vec<&str> = t0.iter().chain(t1.iter()).copied().collect();
            for t in &tags {
                ctx.count(&format!("mutation:{}", t), 1);
            }
            let case_hash = mix(tree.structural_hash() ^ named_hash(&c0) ^ mix(named_hash(&c1)));
            let detail = || json!({"game": tree.to_json(), "candidate": [c0, c1], "tags": tags, "desc": desc});
            // the listings are delivered through iterators whose size hints are honest but
            // unhelpful in three cases out of four (outer and inner, see bridge::NoHint)
            let mut lsalt = case_hash | 1;
            let fast = catch(|| game.from_named([bridge::lazy_listing(&c0, &mut lsalt), bridge::lazy_listing(&c1, &mut lsalt)]));
            let slow = catch(|| game.from_named_eq([bridge::lazy_listing(&c0, &mut lsalt), bridge::lazy_listing(&c1, &mut lsalt)]));
            let (fast, slow) = match (fast, slow) {
                (Ok(f), Ok(s)) => (f, s),
                (f, s) => {
                    ctx.violation(idx, "C14:panic", &format!("import panicked: from_named {:?} from_named_eq {:?}", f.err(), s.err()), detail());
                    return;
                }
            };
            // both paths agree
            let agree = match (&fast, &slow) {
                (Ok(a), Ok(b)) => a == b,
                (Err(a), Err(b)) => a == b,
                _ => false,
            };
            if !agree {
                ctx.violation(
                    idx,
                    "C14:paths-disagree",
                    &format!("from_named -> {:?}, from_named_eq -> {:?} (mutations {:?})", fast.as_ref().map(|_| "Ok").map_err(|e| err_name(*e)), slow.as_ref().map(|_| "Ok").map_err(|e| err_name(*e)), tags),
                    detail(),
                );
                return;
            }
            if let Some(wg) = &weak_game {
                let mut salt = case_hash | 1;
                let mut weaken = |c: &Vec<(String, Vec<(String, f64)>)>| -> Vec<(bridge::WeakKey, Vec<(bridge::WeakKey, f64)>)> {
                    c.iter().map(|(i, acts)| (bridge::weak(i, &mut salt), acts.iter().map(|(a, w)| (bridge::weak(a, &mut salt), *w)).collect())).collect()
                };
                let (w0, w1) = (weaken(&c0), weaken(&c1));
                let mut salt2 = case_hash ^ 0x55;
                let wf = catch(|| wg.from_named([bridge::lazy_listing(&w0, &mut salt2), bridge::lazy_listing(&w1, &mut salt2)]).map(|s| s.verif_probs().map(|v| v.to_vec())));
                ctx.count("candidates_also_imported_with_colliding_hash_keys", 1);
                let bad = match (&fast, &wf) {
                    (_, Err(m)) => Some(format!("from_named panicked with colliding-hash keys: {}", m)),
                    (Ok(a), Ok(Ok(b))) => {
                        let pa = a.verif_probs();
                        let same = (0..2).all(|p| pa[p].len() == b[p].len() && pa[p].iter().zip(b[p].iter()).all(|(x, y)| x.to_bits() == y.to_bits()));
                        if same {
                            None
                        } else {
                            Some("both imports succeed but store different probabilities".to_string())
                        }
                    }
                    (Err(a), Ok(Err(b))) => {
                        if a == b || (violated.contains(&err_name(*a)) && violated.contains(&err_name(*b))) {
                            None
                        } else {
                            Some(format!("{:?} with String keys, {:?} with colliding-hash keys", a, b))
                        }
                    }
                    (a, Ok(b)) => Some(format!("{:?} with String keys, {:?} with colliding-hash keys", a.as_ref().map(|_| "Ok").map_err(|e| err_name(*e)), b.as_ref().map(|_| "Ok").map_err(|e| err_name(*e)))),
                };
                if let Some(what) = bad {
                    ctx.violation(idx, "C14:import-depends-on-key-hashes", &format!("{} (mutations {:?})", what, tags), detail());
                    return;
                }
            }
            let dontcare = specs.iter().any(|s| s.empty_single);
            match fast {
                Err(e) => {
                    if violated.contains(&err_name(e)) {
                        ctx.count(&format!("rejected:{}", err_name(e)), 1);
                        ctx.ok(case_hash, true);
                    } else if dontcare && err_name(e) == "UninitializedInfoset" {
                        ctx.dont_care("single-action-infoset-with-empty-action-list");
                    } else if violated.is_empty() {
                        ctx.violation(idx, &format!("C14:rejects-valid:{}", err_name(e)), &format!("import returned {:?} for a candidate that satisfies the rules (mutations {:?})", e, tags), detail());
                        return;
                    } else {
                        ctx.violation(idx, &format!("C14:wrong-error:{}", err_name(e)), &format!("import returned {:?} but the candidate only violates {:?} (mutations {:?})", e, violated, tags), detail());
                        return;
                    }
                }
                Ok(strat) => {
                    if !violated.is_empty() {
                        ctx.violation(idx, &format!("C14:accepts-invalid:{}", violated.iter().cloned().collect::<Vec<_>>().join("+")), &format!("import accepted a candidate violating {:?} (mutations {:?})", violated, tags), detail());
                        return;
                    }
                    if dontcare {
                        ctx.dont_care("single-action-infoset-with-empty-action-list");
                        continue;
                    }
                    // normalisation
                    let Ok(dense) = bridge::dense_profile(&game, &flat, &strat) else {
                        ctx.inconclusive("dense-mismatch");
                        continue;
                    };
                    let mut bad = None;
                    for p in 0..2 {
                        for (i, want) in specs[p].expected.iter().enumerate() {
                            for (k, (w, g)) in want.iter().zip(dense[p][i].iter()).enumerate() {
                                // (results in the subnormal range keep few bits: absolute slack there)
                                // a sum of n terms carries up to n/2 ulp of rounding, in whatever order it is formed
                                let ok = (w - g).abs() <= (4.0 + want.len() as f64) * f64::EPSILON * w.abs() + 1e-305 || (w.is_nan() && g.is_nan());
                                if !ok || g.is_nan() || *g < 0.0 {
                                    bad = Some((p, i, k, *w, *g));
                                }
                            }
                        }
                    }
                    // whatever the arithmetic, an accepted import must hold distributions
                    if bad.is_none() {
                        for p in 0..2 {
                            for (i, v) in dense[p].iter().enumerate() {
                                let tot: f64 = v.iter().sum();
                                if !((tot - 1.0).abs() <= 1e-9) {
                                    bad = Some((p, i, 0, 1.0, tot));
                                }
                            }
                        }
                    }
                    if let Some((p, i, k, w, g)) = bad {
                        let overflow = specs.iter().any(|s| s.overflow);
                        ctx.violation(
                            idx,
                            if overflow { "C14:ok-but-not-normalised:total-overflows-to-inf" } else { "C14:ok-but-wrong-probability" },
                            &format!("import succeeded but infoset {:?} of player {} action {} holds {} where weight/total = {} (mutations {:?})", flat.info_names[p][i], p + 1, k, g, w, tags),
                            detail(),
                        );
                        if !overflow {
                            return;
                        }
                        continue;
                    }
                    ctx.count("accepted", 1);
                    ctx.ok(case_hash, true);
                    ctx.sample(3, || json!({"accepted_candidate_player_one": c0, "tags": tags}));
                }
            }
        }
    });
    ctx.finish(crate::report::extra(
        "cases = (game, candidate named strategy for both players; every listing is handed over through iterators - outer and per infoset - whose size_hint is (0,None), (min(1,len),None), (min(1,len),len+2) or exact): a valid weight table (random profile x scale in {1,7,1e-3,1e200,1e-200}) with 0-3 mutations per player from {shuffle, duplicate action entry, repeated infoset with a subset of actions, dropped infoset, unknown infoset, other player's infoset, illegal action, special weight from {-1,-0,0,5e-324,1e-300,1,1e300,NaN,+-inf}, all-zero infoset, omitted action, empty action list, overflowing total, wrong action on a single-action infoset}. O4 computes the set of violated import rules and the expected weight/total table (last write wins); required: Ok iff the set is empty, Err(kind) in the set, stored probabilities (hook verif_probs) within (4 + number of actions) ulp of expected, and from_named == from_named_eq (same Ok value or same error kind); for half of the games the candidates are also imported into the same game built with a key type whose Hash collides almost always and whose Eq ignores case (only the parity of the name length is hashed; every occurrence of a name in random case): same verdict, bit-identical stored probabilities. distinct counted per judged candidate (cases are generated from independent streams); non-trivial = every candidate.",
        &["a single-action infoset mentioned with an empty action list is don't-care (the documentation does not say whether that covers it)"],
    ));
}
