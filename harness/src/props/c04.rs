//! C04: chance-sampled and external-sampled solvers converge on every game.
//! Monitor: envelope on the O1 true regret of returned profiles with replication of every
//! exceedance over 21 fresh sampling seeds (the bounded reading of "with overwhelming
//! probability"), plus aggregate medians over the run's game collection.
use crate::gen::{self, chance, player, term, ParamSpec};
use crate::oracle;
use crate::report::Ctx;
use crate::rng::{mix, Rng};
use crate::solve::{self, Cfg, Outcome, Prepared};
use crate::tree::HNode;
use cfr::verif::{Config, Sampling};
use cfr::SolveMethod;
use serde_json::json;

/// the same chance infoset twice on one path (allowed by the documented contract)
fn repeated_chance(rng: &mut Rng) -> HNode {
    let mut leaf = |x: f64| {
        player(
            0,
            format!("d{}", x),
            vec![
                ("l".into(), player(1, "g", vec![("a".into(), term(x)), ("b".into(), term(-x))])),
                ("r".into(), term(0.1 * x + 0.01 * rng.unit())),
            ],
        )
    };
    let a = chance(Some("c".into()), vec![(1.0, leaf(1.0)), (1.0, leaf(-3.0))]);
    let b = chance(Some("c".into()), vec![(1.0, leaf(-2.0)), (1.0, leaf(0.5))]);
    chance(Some("c".into()), vec![(1.0, a), (1.0, b)])
}

fn regret_of(prep: &Prepared, cfg: &Cfg, sampling: Sampling) -> Result<f64, String> {
    match solve::run(prep, cfg, Some(Config { flags: 0, sampling, jitter_seed: 0 })) {
        Outcome::Ok(out) => Ok(oracle::evaluate(&prep.flat, &out.profile).total()),
        Outcome::Err(e) => Err(format!("error {:?}", e)),
        Outcome::Panic(m) => Err(format!("panic {}", m)),
    }
}

fn median(v: &mut [f64]) -> f64 {
    v.sort_by(|a, b| a.partial_cmp(b).unwrap());
    if v.is_empty() {
        f64::NAN
    } else {
        v[v.len() / 2]
    }
}

pub fn run(ctx: &mut Ctx) {
    let quick = ctx.quick();
    let n = if quick { 40_000 } else { 1_500_000 };
    // per (method) collections for the aggregate statement: regret/D at T=100 and at T=3000
    let mut agg: [Vec<(f64, f64)>; 2] = Default::default();
    ctx.run_cases(n, |ctx, idx, rng| {
        let probe = rng.chance(0.02);
        let (desc, tree) = if probe {
            ("repeated_chance_infoset_on_a_path".to_string(), repeated_chance(rng))
        } else {
            let size = *rng.pick(&[0usize, 1, 1, 2]);
            gen::any_game(rng, size)
        };
        if tree.count_nodes() > 500 {
            ctx.count("skipped-large", 1);
            return;
        }
        let prep = match Prepared::new(&tree) {
            Ok(p) => p,
            Err(e) => {
                ctx.violation(idx, "C04:prepare", &format!("{} ({})", e, desc), json!({"game": tree.to_json()}));
                return;
            }
        };
        let d = prep.flat.payoff_range();
        let nn = prep.flat.num_decision_infosets() as f64;
        let a = prep.flat.max_actions() as f64;
        if nn < 2.0 || d == 0.0 {
            ctx.count("skipped-trivial(N<2 or D=0)", 1);
            return;
        }
        let scale = prep.flat.max_abs_payoff();
        let method = if rng.chance(0.5) { SolveMethod::Sampled } else { SolveMethod::External };
        let spec = *rng.pick(&[ParamSpec::None, ParamSpec::Vanilla, ParamSpec::Lcfr, ParamSpec::CfrPlus, ParamSpec::Dcfr, ParamSpec::DcfrPrune]);
        let threads = *rng.pick(&[1usize, 1, 1, 2, 8]);
        let threads = crate::props::c06::frontier_threads(rng, &tree, method, threads);
        let production = rng.chance(0.2);
        let mut at100 = None;
        let mut at3000 = None;
        for &iters in &[100u64, 1000, 3000] {
            if iters == 1000 && rng.chance(0.5) {
                continue;
            }
            let cfg = Cfg { method, iters, max_reg: 0.0, threads, params: spec };
            ctx.mark(idx, &cfg.describe());
            let seed = rng.next();
            let sampling = if production { Sampling::Production } else { Sampling::Seeded(seed) };
            let detail = || json!({"game": tree.to_json(), "cfg": cfg.describe(), "desc": desc, "sampling_seed": seed.to_string(), "production_randomness": production, "D": d, "N": nn, "A": a});
            let reg = match regret_of(&prep, &cfg, sampling) {
                Ok(r) => r,
                Err(e) if e.starts_with("panic") => {
                    ctx.violation(idx, "C04:panic", &format!("{}: {}", cfg.describe(), e), detail());
                    return;
                }
                Err(_) => {
                    ctx.inconclusive("thread-spawn-error");
                    return;
                }
            };
            let env = d * nn * a.sqrt() / (iters as f64).sqrt();
            ctx.max("max_regret_over_envelope", reg / env);
            if iters == 100 {
                at100 = Some(reg / d);
            }
            if iters == 3000 {
                at3000 = Some(reg / d);
            }
            if reg > env + 1e-9 * scale {
                // replicate on 21 fresh sampling seeds
                let mut exceed = 0;
                let mut worst = reg;
                for rep in 0..21u64 {
                    let s2 = mix(seed ^ mix(rep + 1));
                    match regret_of(&prep, &cfg, Sampling::Seeded(s2)) {
                        Ok(r) => {
                            if r > env + 1e-9 * scale {
                                exceed += 1;
                            }
                            worst = worst.max(r);
                        }
                        Err(_) => {}
                    }
                }
                ctx.count("exceedances_put_to_replication", 1);
                if exceed >= 11 {
                    let sig = if probe { "C04:no-convergence:chance-infoset-repeated-on-a-path".to_string() } else { format!("C04:regret-above-envelope-replicated:{}", gen::method_name(method)) };
                    ctx.violation(
                        idx,
                        &sig,
                        &format!("{}: true regret {} > D*N*sqrt(A)/sqrt(T) = {} and again on {} of 21 fresh sampling seeds (worst {}) on {}", cfg.describe(), reg, env, exceed, worst, desc),
                        detail(),
                    );
                    return;
                }
                ctx.count("exceedances_not_replicated(held)", 1);
            }
            ctx.count(&format!("method:{}", gen::method_name(method)), 1);
            ctx.count(&format!("budget:{}", iters), 1);
            ctx.count(&format!("threads:{}", threads), 1);
            ctx.ok(mix(tree.structural_hash() ^ mix(crate::rng::hash_str(&cfg.describe()) ^ seed)), true);
            ctx.sample(3, || json!({"game": tree.brief(100), "desc": desc, "cfg": cfg.describe(), "true_regret": reg, "envelope": env}));
        }
        if let (Some(x), Some(y)) = (at100, at3000) {
            if nn >= 3.0 && !probe {
                // non-trivial for the aggregate: deterministic vanilla CFR has not already solved it at T=100
                let vcfg = Cfg { method: SolveMethod::Full, iters: 100, max_reg: 0.0, threads: 1, params: ParamSpec::Vanilla };
                if let Outcome::Ok(out) = solve::run(&prep, &vcfg, None) {
                    if oracle::evaluate(&prep.flat, &out.profile).total() > 0.0 {
                        agg[if method == SolveMethod::Sampled { 0 } else { 1 }].push((x, y));
                    }
                }
            }
        }
    });
    // aggregate statement per method over this shard's collection
    for (mi, name) in ["sampled", "external"].iter().enumerate() {
        let coll = &agg[mi];
        if ctx.only.is_some() {
            continue;
        }
        if coll.len() < 20 {
            ctx.inconclusive("aggregate-collection-smaller-than-20-games");
            continue;
        }
        let mut lo: Vec<f64> = coll.iter().map(|c| c.0).collect();
        let mut hi: Vec<f64> = coll.iter().map(|c| c.1).collect();
        let (m100, m3000) = (median(&mut lo), median(&mut hi));
        ctx.max(&format!("median_regret_over_D_at_T=100:{}", name), m100);
        ctx.max(&format!("median_regret_over_D_at_T=3000:{}", name), m3000);
        ctx.count(&format!("aggregate_collection_size:{}", name), coll.len() as u64);
        let held = (m100 < 1e-4 && m3000 < 1e-4) || (m3000 < 0.01 && m3000 < 0.5 * m100);
        if held {
            ctx.ok(mix(0xa66 ^ mi as u64 ^ (ctx.shard << 8)), true);
        } else {
            ctx.violation(
                1_000_000_000 + mi as u64,
                &format!("C04:aggregate-no-progress:{}", name),
                &format!("over {} non-trivial games the median regret/D is {} after 100 and {} after 3000 iterations of {} (required: below 1% and below half of the T=100 value)", coll.len(), m100, m3000, name),
                json!({"pairs": coll.iter().take(50).collect::<Vec<_>>()}),
            );
        }
    }
    ctx.finish(crate::report::extra(
        "cases = solve(Sampled|External, T, 0, k, preset) calls on G1/G2 games with N>=2 and D>0 (<=500 nodes): presets {None,vanilla,lcfr,cfr_plus,dcfr,dcfr_prune}, T in {100,1000,3000}, k in {1,2,8}, 80% under seeded (replayable) sampling decisions, 20% under production randomness. The returned profile is evaluated by O1. (a) Per run: true regret <= D*N*sqrt(A)/sqrt(T); an exceedance is re-run on 21 fresh sampling seeds and is a violation only if it replicates on >= 11 (matching pennies exceeds the tight envelope about once per 2000 runs on correct code). (b) Per shard: over the games with N>=3 that deterministic vanilla CFR has not solved exactly at T=100, median(regret/D) at T=3000 must be below 1% and below half the median at T=100 (or both below 1e-4). 2% of the cases probe a tree in which one chance infoset occurs twice on a path (allowed by the documented contract). distinct = hash(tree, configuration, sampling seed); non-trivial = every judged run (trivial games are skipped and counted).",
        &["'with overwhelming probability' is read as: an exceedance must replicate on a majority of 21 fresh seeds", "'regret shrinks towards zero' is restated as the finite-T envelope and the T=100 -> T=3000 improvement; no finite run decides an unbounded eventuality"],
    ));
}
