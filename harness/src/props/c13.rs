//! C13: the named view of a strategy is complete, consistent and round-trips; iterator lengths
//! are exact at every prefix.
//! Monitor: reference model (expected named view built from the dense vectors, hook H1) plus an
//! iterator-contract monitor that queries len() before every next().
use crate::bridge::{self, G, S};
use crate::gen;
use crate::report::{catch, Ctx};
use crate::rng::{mix, Rng};
use crate::tree::{Flat, HNode};
use serde_json::json;

/// Produce a profile on the game from one of several sources; returns (source name, strategies)
pub fn some_strategies<'a>(rng: &mut Rng, game: &'a G, flat: &Flat) -> Option<(String, S<'a>)> {
    match rng.below(9) {
        8 => {
            // imported with weights that are not normalised: the same profile written in very
            // small, small, ordinary or very large units per infoset (all legal weights)
            let kind = rng.below(gen::PROFILE_KINDS);
            let mut prof = gen::random_profile(rng, flat, kind);
            let tiny = (2.0f64).powi(-520) * (2.0f64).powi(-(rng.range(500, 545) as i32));
            for pl in prof.iter_mut() {
                for v in pl.iter_mut() {
                    let f = *rng.pick(&[tiny, 1e-300, 1e-20, 3.0, 1e300]);
                    if v.len() > 1 {
                        v.iter_mut().for_each(|x| *x *= f);
                    }
                }
            }
            let s = bridge::inject(game, flat, &prof).ok()?;
            Some((format!("from_named(kind {}, infosets rescaled to tiny/large units)", kind), s))
        }
        0 | 1 => {
            let m = gen::METHODS[rng.below(3)];
            let t = *rng.pick(&[0u64, 1, 2, 5, 30]);
            let spec = gen::ParamSpec::random(rng);
            let (s, _) = game.solve(m, t, 0.0, 1, spec.to_params()).ok()?;
            Some((format!("solve({},{},{})", gen::method_name(m), t, spec.name()), s))
        }
        2 => {
            let m = gen::METHODS[rng.below(3)];
            let (mut s, _) = game.solve(m, 20, 0.0, 1, Some(cfr::RegretParams::cfr_plus())).ok()?;
            let h = *rng.pick(&[0.0, 0.01, 0.1, 0.3]);
            s.truncate(h);
            Some((format!("solve({},20,cfr_plus).truncate({})", gen::method_name(m), h), s))
        }
        k => {
            let kind = k % gen::PROFILE_KINDS;
            let prof = gen::random_profile(rng, flat, kind);
            let s = bridge::inject(game, flat, &prof).ok()?;
            Some((format!("from_named(kind {})", kind), s))
        }
    }
}

pub fn named_json(strat: &S) -> serde_json::Value {
    let [one, two] = strat.as_named();
    let f = |it: cfr::NamedStrategyIter<'_, String, String>| it.map(|(i, a)| json!([i, a.map(|(n, q)| json!([n, q])).collect::<Vec<_>>()])).collect::<Vec<_>>();
    json!([f(one), f(two)])
}

fn check(ctx: &mut Ctx, idx: u64, desc: &str, tree: &HNode, flat: &Flat, game: &G, src: &str, strat: &S) -> Result<(), (String, String)> {
    let dense = bridge::dense_profile(game, flat, strat).map_err(|e| ("dense-mismatch".to_string(), e))?;
    let mut len_queries = 0u64;
    for (p, iter) in strat.as_named().into_iter().enumerate() {
        let mut iter = iter;
        let expected_items = flat.info_names[p].len();
        let mut seen = vec![false; expected_items];
        let mut yielded = 0usize;
        loop {
            let advertised = iter.len();
            len_queries += 1;
            let remaining = expected_items.saturating_sub(yielded);
            let item = iter.next();
            let Some((info, acts)) = item else {
                if advertised != 0 {
                    return Err(("infoset-iter-len".into(), format!("player {} infoset iterator advertised len {} but was exhausted", p + 1, advertised)));
                }
                break;
            };
            if advertised != remaining {
                return Err((
                    "infoset-iter-len".into(),
                    format!("player {} infoset iterator advertised len {} with {} of {} items still to come", p + 1, advertised, remaining, expected_items),
                ));
            }
            yielded += 1;
            let Some(&iid) = flat.name_to_info[p].get(info) else {
                return Err(("unknown-infoset".into(), format!("as_named lists unknown infoset {:?} for player {}", info, p + 1)));
            };
            if seen[iid] {
                return Err(("infoset-listed-twice".into(), format!("as_named lists infoset {:?} of player {} twice", info, p + 1)));
            }
            seen[iid] = true;
            // actions
            let names = &flat.info_actions[p][iid];
            let want: Vec<(usize, f64)> = if names.len() == 1 {
                vec![(0, 1.0)]
            } else {
                dense[p][iid].iter().copied().enumerate().filter(|(_, q)| *q > 0.0).collect()
            };
            let mut acts = acts;
            let mut got: Vec<(usize, f64)> = Vec::new();
            loop {
                let adv = acts.len();
                len_queries += 1;
                let left = want.len().saturating_sub(got.len());
                match acts.next() {
                    None => {
                        if adv != 0 {
                            return Err(("action-iter-len".into(), format!("action iterator of {:?} advertised len {} but was exhausted", info, adv)));
                        }
                        break;
                    }
                    Some((a, q)) => {
                        if adv != left {
                            return Err((
                                "action-iter-len".into(),
                                format!("action iterator of {:?} (player {}) advertised len {} with {} of {} items still to come; stored probabilities {:?}", info, p + 1, adv, left, want.len(), dense[p][iid]),
                            ));
                        }
                        let Some(aid) = names.iter().position(|n| n == a) else {
                            return Err(("unknown-action".into(), format!("as_named lists unknown action {:?} in {:?}", a, info)));
                        };
                        got.push((aid, q));
                    }
                }
            }
            if got != want {
                return Err((
                    "actions-differ".into(),
                    format!("infoset {:?} of player {}: named view {:?} but positive stored probabilities are {:?} (stored {:?})", info, p + 1, got, want, dense[p][iid]),
                ));
            }
            let tot: f64 = got.iter().map(|(_, q)| q).sum();
            if !((tot - 1.0).abs() <= 1e-9) {
                return Err(("not-normalised".into(), format!("infoset {:?} of player {} sums to {} in the named view ({})", info, p + 1, tot, src)));
            }
        }
        if let Some(m) = seen.iter().position(|s| !s) {
            return Err(("infoset-missing".into(), format!("as_named omits infoset {:?} of player {}", flat.info_names[p][m], p + 1)));
        }
    }
    ctx.count("len_queries", len_queries);
    // round trip
    let back = game.from_named(strat.as_named()).map_err(|e| ("roundtrip-rejected".to_string(), format!("from_named(as_named(s)) failed: {:?} ({})", e, src)))?;
    if back != *strat {
        let d2 = bridge::dense_profile(game, flat, &back).map_err(|e| ("dense-mismatch".to_string(), e))?;
        // "up to rounding in the last place": re-importing divides by the sum of the listed
        // probabilities, and a sum of n terms is 1 only up to about n/2 ulp - so the allowance
        // grows with the width of the infoset (1e-15 up to a handful of actions)
        let mut worst = 0.0f64;
        let mut worst_excess = 0.0f64;
        for p in 0..2 {
            for (a, b) in dense[p].iter().zip(d2[p].iter()) {
                let allow = 1e-15f64.max(a.len() as f64 * f64::EPSILON);
                for (x, y) in a.iter().zip(b.iter()) {
                    worst = worst.max((x - y).abs());
                    worst_excess = worst_excess.max((x - y).abs() - allow);
                }
            }
        }
        ctx.max("roundtrip_max_abs_diff", worst);
        if worst_excess > 0.0 {
            return Err(("roundtrip-differs".into(), format!("from_named(as_named(s)) differs from s by {} ({})", worst, src)));
        }
        ctx.count("roundtrip_equal_up_to_last_place", 1);
    } else {
        ctx.count("roundtrip_bit_identical", 1);
    }
    let back_eq = game.from_named_eq(strat.as_named()).map_err(|e| ("roundtrip-rejected".to_string(), format!("from_named_eq(as_named(s)) failed: {:?}", e)))?;
    if back_eq != back {
        return Err(("roundtrip-paths-differ".into(), "from_named and from_named_eq disagree on as_named(s)".into()));
    }
    let _ = (idx, desc, tree);
    Ok(())
}

pub fn run(ctx: &mut Ctx) {
    let quick = ctx.quick();
    let n = if quick { 200_000 } else { 8_000_000 };
    ctx.run_cases(n, |ctx, idx, rng| {
        let size = rng.below(if quick { 3 } else { 4 });
        let (desc, tree) = gen::any_game(rng, size);
        let Ok(game) = bridge::build(&tree) else {
            ctx.inconclusive("valid-tree-rejected(see C11)");
            return;
        };
        let flat = Flat::new(&tree);
        for _ in 0..3 {
            let got = catch(|| some_strategies(rng, &game, &flat));
            let Ok(Some((src, mut strat))) = got else {
                ctx.inconclusive("profile-source-failed(see C05/C14)");
                continue;
            };
            ctx.count(&format!("source:{}", src.split('(').next().unwrap_or("")), 1);
            match catch(|| check(ctx, idx, &desc, &tree, &flat, &game, &src, &strat)) {
                Ok(Ok(())) => {
                    let h = mix(tree.structural_hash() ^ mix(strat.verif_probs()[0].iter().chain(strat.verif_probs()[1].iter()).fold(3u64, |h, x| mix(h ^ x.to_bits()))));
                    let singles = (0..2).map(|p| flat.info_actions[p].iter().filter(|a| a.len() == 1).count()).sum::<usize>();
                    if singles > 0 {
                        ctx.count("cases_with_single_action_infosets", 1);
                    }
                    ctx.ok(h, flat.info_names[0].len() + flat.info_names[1].len() >= 1);
                    ctx.sample(3, || json!({"game": tree.brief(200), "source": src, "named": named_json(&strat)}));
                    // history on one value: the view was just exported (check() walks it); now
                    // truncate that value - or a clone taken after the export - at a threshold taken
                    // from the profile itself and export again: the second view must describe the
                    // profile the value holds *now*
                    if rng.chance(0.3) {
                        let stored: Vec<f64> = strat.verif_probs().iter().flat_map(|v| v.iter().copied()).filter(|p| *p > 0.0 && *p < 1.0).collect();
                        if !stored.is_empty() {
                            let pick = stored[rng.below(stored.len())];
                            let h = match rng.below(3) {
                                0 => pick,
                                1 => pick * 1.0000001,
                                _ => (pick + 0.5) / 2.0,
                            };
                            let on_clone = rng.chance(0.5);
                            let mut cloned = strat.clone();
                            let later = if on_clone { &mut cloned } else { &mut strat };
                            let src2 = format!("{} ; as_named ; {}truncate({}) ; as_named", src, if on_clone { "clone ; " } else { "" }, h);
                            let r = catch(|| {
                                later.truncate(h);
                                check(ctx, idx, &desc, &tree, &flat, &game, &src2, later)
                            });
                            ctx.count("histories(export, truncate, export)", 1);
                            match r {
                                Ok(Ok(())) => {}
                                Ok(Err((sig, msg))) => {
                                    ctx.violation(idx, &format!("C13:history:{}", sig), &format!("{} [{} on {}]", msg, src2, desc), json!({"game": tree.to_json(), "source": src2}));
                                    return;
                                }
                                Err(p) => {
                                    ctx.violation(idx, "C13:history:panic", &format!("panic: {} [{} on {}]", p, src2, desc), json!({"game": tree.to_json(), "source": src2}));
                                    return;
                                }
                            }
                        }
                    }
                }
                Ok(Err((sig, msg))) => {
                    ctx.violation(idx, &format!("C13:{}", sig), &format!("{} [{} on {}]", msg, src, desc), json!({"game": tree.to_json(), "source": src}));
                    return;
                }
                Err(p) => {
                    ctx.violation(idx, "C13:panic", &format!("panic while reading the named view: {} [{} on {}]", p, src, desc), json!({"game": tree.to_json(), "source": src}));
                    return;
                }
            }
        }
    });
    ctx.finish(crate::report::extra(
        "cases = (game, profile): G1/G2 games x profiles from {solver output of a random method/preset/budget, truncated solver output, from_named of random/pure/sparse/near-uniform/tiny/skewed profiles, the same imported with each infoset's weights rescaled to units from {2^-1020..2^-1065, 1e-300, 1e-20, 3, 1e300}}. The expected named view is built from the dense stored probabilities (hook verif_probs) and the harness tree; as_named must list every infoset once with exactly the positive-probability actions (single-action infosets as (action,1)), len() of the infoset iterator and of every action iterator is queried before every next() and must equal the number of items still to come, and from_named/from_named_eq(as_named(s)) must reproduce s (bit-identical, or within max(1e-15, width x 2.2e-16) per probability of an infoset of that width). History: in 30% of the cases the value just exported (or a clone of it) is truncated at a threshold taken from its own probabilities and exported again; the second view is judged against the probabilities the value holds then. distinct = hash(tree, stored probabilities); non-trivial = the game has at least one infoset.",
        &["infoset alignment by name through the public API", "round-trip tolerance max(1e-15, infoset width x epsilon) absolute on probabilities"],
    ));
}
