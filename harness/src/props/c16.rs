//! C16: CLI options and input formats mean what the help text says.
//! Monitor: differential of the shipped binary against the library called by the harness with
//! the parameters the help text assigns to the options (bit-exact for `-m full -p 1` on files
//! whose numbers arrive exactly), route/format independence, behavioural signatures for the
//! sampled methods, and the clip rule judged by O1.
use crate::cli::{self, Printed};
use crate::files::{self, EfgOpts, FileGame, Format, Naming};
use crate::gen::{self, ParamSpec};
use crate::oracle;
use crate::report::Ctx;
use crate::rng::{mix, Rng};
use crate::solve::{self, Cfg, Outcome, Prepared};
use crate::tree::{Flat, Profile};
use cfr::verif::{Config, Sampling};
use cfr::SolveMethod;
use serde_json::json;
use std::time::Duration;

const PRESETS: [(&str, ParamSpec); 5] = [("vanilla", ParamSpec::Vanilla), ("lcfr", ParamSpec::Lcfr), ("cfr-plus", ParamSpec::CfrPlus), ("dcfr", ParamSpec::Dcfr), ("dcfr-prune", ParamSpec::DcfrPrune)];

fn max_diff(a: &Profile, b: &Profile) -> f64 {
    let mut w = 0.0f64;
    for p in 0..2 {
        for (x, y) in a[p].iter().zip(b[p].iter()) {
            for (u, v) in x.iter().zip(y.iter()) {
                w = w.max((u - v).abs());
            }
        }
    }
    w
}

fn run_cli(cli_path: &str, args: &[String], stdin: Option<&str>, flat: &Flat) -> Result<Printed, (String, String)> {
    // (for the general call sites a watchdog is inconclusive whatever the child was doing)
    run_cli_within(cli_path, args, stdin, flat, 120).map_err(|(sig, msg)| if sig == "cpu-bound-when-the-watchdog-fired" { ("watchdog".to_string(), msg) } else { (sig, msg) })
}

/// As [run_cli] with a wall-clock watchdog of `limit_s` seconds. A watchdog that fires is
/// inconclusive ("watchdog") unless the child had by then burned at least `limit_s / 2` seconds of
/// CPU itself ("cpu-bound-when-the-watchdog-fired": the caller decides what that means)
fn run_cli_within(cli_path: &str, args: &[String], stdin: Option<&str>, flat: &Flat, limit_s: u64) -> Result<Printed, (String, String)> {
    let r = cli::run(cli_path, args, stdin, Duration::from_secs(limit_s));
    if r.timed_out {
        if r.cpu_s_at_timeout >= limit_s as f64 / 2.0 {
            return Err(("cpu-bound-when-the-watchdog-fired".into(), format!("the program had used {:.0} s of CPU when it was stopped after {} s", r.cpu_s_at_timeout, limit_s)));
        }
        return Err(("watchdog".into(), "cli watchdog".into()));
    }
    if r.status != Some(0) {
        return Err(("valid-file-rejected".into(), format!("exit {:?}: {}", r.status, r.stderr.lines().next().unwrap_or(""))));
    }
    cli::parse_output(&r.stdout, flat)
}

pub fn run(ctx: &mut Ctx) {
    let quick = ctx.quick();
    let n = if quick { 5_000 } else { 250_000 };
    let cli_path = ctx.cli.clone().expect("--cli");
    let scratch = ctx.scratch.clone();
    ctx.run_cases(n, |ctx, idx, rng| {
        let size = *rng.pick(&[0usize, 1, 1, 2]);
        let (desc, tree) = files::cli_game(rng, size, true);
        // names with spaces, quotes, backslashes and non-ascii characters now and then: both
        // encodings must deliver the real names
        let tree = if rng.chance(0.15) { files::fancy_names(&tree) } else { tree };
        let stem = format!("c16-{}-{}", ctx.shard, idx % 64);
        let mut json_fg = files::write_json(rng, &tree);
        // both formats allow whitespace around the document
        let pad = *rng.pick(&["", "", "", "\n", "  ", "\r\n\r\n", "\t\n "]);
        if !pad.is_empty() {
            json_fg.text = format!("{}{}{}", pad, json_fg.text, *rng.pick(&["", "\n", " \n\n"]));
            ctx.count("files-with-leading-whitespace", 1);
        }
        let prep = match Prepared::new(&json_fg.tree) {
            Ok(p) => p,
            Err(e) => {
                ctx.violation(idx, "C16:prepare", &format!("{} ({})", e, desc), json!({"game": tree.to_json()}));
                return;
            }
        };
        let flat = &prep.flat;
        let scale = flat.max_abs_payoff().max(1e-300);
        let jpath = cli::write_game_file(&scratch, &stem, &json_fg, None);
        let mode = idx % 5;
        let detail = |args: &[String], extra: serde_json::Value| json!({"file": json_fg.text, "args": args, "desc": desc, "more": extra});
        match mode {
            // ---- (a) options select the library behaviour: -m full, all of -d -t -r -p ----
            0 | 1 => {
                let (dname, spec) = *rng.pick(&PRESETS);
                let use_default_d = spec == ParamSpec::Dcfr && rng.chance(0.5);
                let unlimited = rng.chance(0.1);
                let (t_arg, iters, r_arg, max_reg) = if unlimited {
                    // -t 0 = unlimited: pair it with a threshold vanilla reaches
                    ("0".to_string(), u64::MAX, "0.25".to_string(), 0.25 * 1.0)
                } else {
                    let t = *rng.pick(&[1u64, 2, 3, 10, 50, 200]);
                    let r = *rng.pick(&["0", "0", "0.01", "0.3", "2.5"]);
                    (t.to_string(), t, r.to_string(), r.parse::<f64>().unwrap())
                };
                let (dname, spec) = if unlimited { ("vanilla", ParamSpec::Vanilla) } else { (dname, spec) };
                // -t left out: the documented default budget of 1000 iterations, with no threshold, a
                // zero one, or one the solve only reaches after the default budget is used up
                let omit_t = !unlimited && rng.chance(0.12) && flat.nodes.len() <= 150;
                let (iters, r_arg, max_reg) = if omit_t {
                    match rng.below(3) {
                        0 => (1000u64, "0".to_string(), 0.0),
                        _ => {
                            let probe = Cfg { method: SolveMethod::Full, iters: 1000, max_reg: 0.0, threads: 1, params: spec };
                            match solve::run(&prep, &probe, None) {
                                Outcome::Ok(o) if o.total_bound > 0.0 && o.total_bound.is_finite() => {
                                    let r = o.total_bound * 0.6;
                                    (1000u64, format!("{:?}", r), r)
                                }
                                _ => (1000u64, "0".to_string(), 0.0),
                            }
                        }
                    }
                } else {
                    (iters, r_arg, max_reg)
                };
                if omit_t {
                    ctx.count("runs-with-the-iteration-budget-left-at-its-default", 1);
                }
                let threads = if mode == 0 { 1usize } else { *rng.pick(&[2usize, 4, 0]) };
                let mut args: Vec<String> = vec!["-m".into(), "full".into(), "-p".into(), threads.to_string(), "-i".into(), jpath.clone()];
                if !omit_t {
                    args.extend(["-t".to_string(), t_arg.clone()]);
                }
                if !(use_default_d && !unlimited) {
                    args.extend(["-d".to_string(), dname.to_string()]);
                }
                if r_arg != "0" || rng.chance(0.5) {
                    args.extend(["-r".to_string(), r_arg.clone()]);
                }
                ctx.mark(idx, &args.join(" "));
                // with the budget at its default the library needs milliseconds on these games
                // (<= 150 nodes, 1000 iterations): a program still computing after 40 s, at least 20 s
                // of them on the CPU, is not running the documented 1000 iterations
                let printed = match if omit_t { run_cli_within(&cli_path, &args, None, flat, 40) } else { run_cli(&cli_path, &args, None, flat) } {
                    Ok(p) => p,
                    Err((sig, _)) if sig == "watchdog" => {
                        ctx.inconclusive("cli-watchdog");
                        return;
                    }
                    Err((sig, msg)) if sig == "cpu-bound-when-the-watchdog-fired" => {
                        if omit_t {
                            ctx.violation(idx, "C16:default-budget:does-not-return", &format!("cfr {}: {} although the default budget is 1000 iterations, which the library runs in milliseconds on this game ({})", args.join(" "), msg, desc), detail(&args, json!({})));
                            return;
                        }
                        ctx.inconclusive("cli-watchdog");
                        return;
                    }
                    Err((sig, msg)) => {
                        ctx.violation(idx, &format!("C16:{}", sig), &format!("cfr {}: {} ({})", args.join(" "), msg, desc), detail(&args, json!({})));
                        return;
                    }
                };
                let lib_threads = if threads == 0 { 0 } else { threads };
                let cfg = Cfg { method: SolveMethod::Full, iters, max_reg, threads: lib_threads, params: spec };
                let hook = Some(Config { flags: cfr::verif::LOG_STATE | cfr::verif::LOG_PASS, sampling: Sampling::Production, jitter_seed: 0 });
                let lib = match solve::run(&prep, &cfg, if iters <= 200 { hook } else { None }) {
                    Outcome::Ok(o) => o,
                    _ => {
                        ctx.inconclusive("library-solve-failed(see C05)");
                        return;
                    }
                };
                let diff = max_diff(&printed.profile, &lib.profile);
                // Two separately compiled binaries need not agree in the last place: LLVM may turn
                // powf(x, 2.0) into x*x in one and call libm in the other (observed: 1 ulp on 84 of
                // 5000 runs). So equality is demanded within 1e-9, with the margin rule.
                if diff == 0.0 {
                    ctx.count("cli-equals-library-bit-for-bit", 1);
                } else if diff > 1e-9 {
                    {
                        let m = if iters <= 200 { solve::step_check(&prep, &cfg, &lib, false).map(|s| s.min_margin).unwrap_or(0.0) } else { 0.0 };
                        if m < 1e-9 {
                            ctx.inconclusive("outputs-differ-but-the-library-trace-passed-within-1e-9-of-a-regret-matching-discontinuity");
                            return;
                        }
                    }
                    // which option is not honoured? try the neighbours
                    let mut hint = String::new();
                    for (n2, s2) in PRESETS {
                        let c2 = Cfg { params: s2, ..cfg };
                        if let Outcome::Ok(o2) = solve::run(&prep, &c2, None) {
                            if max_diff(&printed.profile, &o2.profile) == 0.0 {
                                hint = format!("; the output equals the library with preset {}", n2);
                            }
                        }
                    }
                    ctx.violation(
                        idx,
                        &format!("C16:full-differs-from-library{}", if threads != 1 { ":multi" } else { "" }),
                        &format!("cfr {}: printed strategies differ from Game::solve(Full, {}, {}, {}, {}) by {}{} ({})", args.join(" "), iters, max_reg, lib_threads, spec.name(), diff, hint, desc),
                        detail(&args, json!({"library": lib.profile, "printed": printed.profile})),
                    );
                    return;
                } else {
                    ctx.count("cli-equals-library-within-rounding", 1);
                }
                ctx.count(&format!("preset:{}", dname), 1);
                ctx.count(&format!("threads:{}", threads), 1);
                ctx.ok(mix(crate::rng::hash_str(&json_fg.text) ^ crate::rng::hash_str(&args[..args.len() - 1].join(" "))), flat.num_decision_infosets() > 0);
                ctx.sample(3, || json!({"args": args.join(" "), "max_difference_to_library": diff, "file_head": json_fg.text.chars().take(200).collect::<String>()}));
            }
            // ---- (b)+(c) routes, formats and encodings ----
            2 => {
                let (dname, _) = *rng.pick(&PRESETS);
                let t = rng.pick(&[1u64, 5, 30]).to_string();
                let base: Vec<String> = vec!["-m".into(), "full".into(), "-d".into(), dname.into(), "-t".into(), t, "-p".into(), "1".into()];
                let mut with = |extra: &[&str]| -> Vec<String> { base.iter().cloned().chain(extra.iter().map(|s| s.to_string())).collect() };
                let reference = match run_cli(&cli_path, &with(&["-i", &jpath]), None, flat) {
                    Ok(p) => p,
                    Err((sig, msg)) => {
                        if sig == "watchdog" {
                            ctx.inconclusive("cli-watchdog");
                        } else {
                            ctx.violation(idx, &format!("C16:{}", sig), &format!("{} ({})", msg, desc), detail(&base, json!({})));
                        }
                        return;
                    }
                };
                // the same zero-sum game in Gambit (named infosets so that names coincide)
                let mut eopts = EfgOpts::random(rng, true);
                eopts.constant = 0.0;
                eopts.interior = false;
                eopts.naming = Naming::Named;
                eopts.cross_player_number_names = false;
                let mut efg = files::write_efg(rng, &tree, &eopts);
                if !pad.is_empty() {
                    efg.text = format!("{}{}", pad, efg.text);
                }
                let epath = cli::write_game_file(&scratch, &stem, &efg, None);
                let tpath = cli::write_game_file(&scratch, &format!("{}-j", stem), &json_fg, Some("txt"));
                let t2path = cli::write_game_file(&scratch, &format!("{}-e", stem), &efg, Some("dat"));
                let opath = format!("{}/{}-out.json", scratch, stem);
                let routes: Vec<(&str, Vec<String>, Option<&str>, bool, bool)> = vec![
                    ("stdin-auto", with(&[]), Some(&json_fg.text), true, false),
                    ("stdin-explicit-json", with(&["--input-format", "json"]), Some(&json_fg.text), true, false),
                    ("file-explicit-json", with(&["-i", &jpath, "--input-format", "json"]), None, true, false),
                    ("file-txt-auto-json", with(&["-i", &tpath]), None, true, false),
                    ("output-file", with(&["-i", &jpath, "-o", &opath]), None, true, true),
                    ("efg-file", with(&["-i", &epath]), None, efg.exact && json_fg.exact, false),
                    ("efg-file-explicit", with(&["-i", &epath, "--input-format", "gambit"]), None, efg.exact && json_fg.exact, false),
                    ("efg-dat-auto", with(&["-i", &t2path]), None, efg.exact && json_fg.exact, false),
                    ("efg-stdin-auto", with(&[]), Some(&efg.text), efg.exact && json_fg.exact, false),
                ];
                for (name, args, stdin, exact, outfile) in routes {
                    ctx.mark(idx, name);
                    let got = if outfile {
                        // the output path may already hold something (an earlier, longer result):
                        // afterwards the file must hold exactly the new object
                        match idx % 3 {
                            0 => {
                                let _ = std::fs::remove_file(&opath);
                            }
                            1 => {
                                let _ = std::fs::write(&opath, format!("{{\"regret\": 0.5, \"old\": \"{}\"}}\n", "x".repeat(70_000)));
                                ctx.count("output-file-preexisting-longer", 1);
                            }
                            _ => {
                                let _ = std::fs::write(&opath, "{}");
                                ctx.count("output-file-preexisting-shorter", 1);
                            }
                        }
                        let r = cli::run(&cli_path, &args, stdin, Duration::from_secs(120));
                        if r.status != Some(0) {
                            Err(("valid-file-rejected".to_string(), r.stderr.lines().next().unwrap_or("").to_string()))
                        } else if !r.stdout.trim().is_empty() {
                            Err(("output-file-but-stdout-not-empty".to_string(), format!("stdout: {:?}", &r.stdout[..r.stdout.len().min(100)])))
                        } else {
                            let text = std::fs::read_to_string(&opath).unwrap_or_default();
                            let _ = std::fs::remove_file(&opath);
                            cli::parse_output(&text, flat)
                        }
                    } else {
                        run_cli(&cli_path, &args, stdin, flat)
                    };
                    match got {
                        Err((sig, _)) if sig == "watchdog" => {
                            ctx.inconclusive("cli-watchdog");
                        }
                        Err((sig, msg)) => {
                            ctx.violation(idx, &format!("C16:route:{}:{}", name, sig), &format!("cfr {} ({}): {} ({})", args.join(" "), name, msg, desc), json!({"json_file": json_fg.text, "efg_file": efg.text, "args": args}));
                            return;
                        }
                        Ok(p) => {
                            let d = max_diff(&p.profile, &reference.profile);
                            if d == 0.0 || (!exact && d <= 1e-9) {
                                ctx.count(&format!("route-identical:{}", name), 1);
                                ctx.ok(mix(crate::rng::hash_str(&json_fg.text) ^ mix(crate::rng::hash_str(name) ^ crate::rng::hash_str(&base.join(" ")))), flat.num_decision_infosets() > 0);
                            } else if !exact {
                                ctx.inconclusive("inexact-encoding-differs(no trace available for the margin rule; see C12)");
                            } else {
                                ctx.violation(
                                    idx,
                                    &format!("C16:route-changes-result:{}", name),
                                    &format!("cfr {} via route {} differs from `-i game.json` by {} in the printed strategies ({})", args.join(" "), name, d, desc),
                                    json!({"json_file": json_fg.text, "efg_file": efg.text, "args": args}),
                                );
                                return;
                            }
                        }
                    }
                }
                for pth in [&epath, &tpath, &t2path] {
                    let _ = std::fs::remove_file(pth);
                }
                // ---- (c') the Gambit features the exact comparison above cannot carry: payoffs on
                // interior nodes, outcomes attached by number only (payoffs stated at another
                // node), a constant sum different from zero. The harness knows the game such a
                // file means (its own semantic tree, net of half the constant) and solves that with
                // the library; the binary must print the same strategies within measured rounding.
                let mut fopts = EfgOpts::random(rng, true);
                fopts.interior = true;
                fopts.share_outcomes = true;
                fopts.by_reference = rng.chance(0.8);
                fopts.naming = *rng.pick(&[Naming::Named, Naming::Mixed, Naming::Unnamed]);
                let efg2 = files::write_efg(rng, &tree, &fopts);
                if let Ok(prep2) = Prepared::new(&efg2.tree) {
                    let e2path = cli::write_game_file(&scratch, &format!("{}-f", stem), &efg2, None);
                    let (dname2, spec2) = *rng.pick(&PRESETS);
                    let t2 = *rng.pick(&[1u64, 5, 30]);
                    let args2: Vec<String> = vec!["-m".into(), "full".into(), "-d".into(), dname2.into(), "-t".into(), t2.to_string(), "-p".into(), "1".into(), "-i".into(), e2path.clone()];
                    ctx.mark(idx, "efg-features-vs-library");
                    let got = run_cli(&cli_path, &args2, None, &prep2.flat);
                    let _ = std::fs::remove_file(&e2path);
                    match got {
                        Err((sig, _)) if sig == "watchdog" => ctx.inconclusive("cli-watchdog"),
                        Err((sig, msg)) => {
                            ctx.violation(idx, &format!("C16:gambit-features:{}", sig), &format!("cfr {}: {} (features {:?}; {})", args2.join(" "), msg, efg2.features, desc), json!({"efg_file": efg2.text, "args": args2}));
                            return;
                        }
                        Ok(p2) => {
                            let cfg2 = Cfg { method: SolveMethod::Full, iters: t2, max_reg: 0.0, threads: 1, params: spec2 };
                            let hook = Some(Config { flags: cfr::verif::LOG_STATE | cfr::verif::LOG_PASS, sampling: Sampling::Production, jitter_seed: 0 });
                            if let Outcome::Ok(lib2) = solve::run(&prep2, &cfg2, hook) {
                                let d = max_diff(&p2.profile, &lib2.profile);
                                let mut fine = d <= 1e-9;
                                if !fine {
                                    match solve::step_check(&prep2, &cfg2, &lib2, false) {
                                        Ok(st) if st.min_margin >= 1e-9 => {
                                            // payoffs reach the solver as (sum of interior payoffs + terminal payoff - half constant):
                                            // rounding relative to the largest magnitude on the path
                                            let mag = efg2.totals.iter().map(|t| t.0.abs().max(t.1.abs())).fold(0.0, f64::max) + efg2.constant.abs() + 16.0;
                                            let payoff_cond = mag / prep2.flat.payoff_range().max(1e-300);
                                            let cond = solve::cond_by_flat_infoset(&prep2, &st);
                                            if solve::profiles_differ(&p2.profile, &lib2.profile, &cond, payoff_cond, st.min_margin).is_none() {
                                                fine = true;
                                                ctx.count("gambit-features-equal-only-within-conditioning-aware-tolerance", 1);
                                            }
                                        }
                                        _ => {
                                            ctx.inconclusive("gambit-features-differ-but-the-library-trace-passed-within-1e-9-of-a-regret-matching-discontinuity");
                                            return;
                                        }
                                    }
                                }
                                if !fine {
                                    // payoffs reach the solver through the file as decimal text minus half
                                    // the constant, i.e. perturbed by a few units in the last place of the
                                    // *written* numbers: would perturbing the payoffs by 1e-14..1e-13
                                    // move the library's own answer as much?
                                    let probe = solve::stability_probe(&efg2.tree, &cfg2, &|| Sampling::Production, &lib2, idx);
                                    if probe >= d / 1000.0 {
                                        ctx.count("gambit-features-differ-but-the-solve-is-unstable-under-1e-13-payoff-perturbations", 1);
                                        ctx.inconclusive("outputs-differ-but-the-solve-is-unstable-under-1e-13-relative-payoff-perturbations");
                                        return;
                                    }
                                }
                                if fine {
                                    for f in &efg2.features {
                                        ctx.count(&format!("gambit-feature-vs-library:{}", f), 1);
                                    }
                                    ctx.ok(mix(crate::rng::hash_str(&efg2.text) ^ crate::rng::hash_str(&args2[..args2.len() - 1].join(" "))), prep2.flat.num_decision_infosets() > 0);
                                } else {
                                    ctx.violation(
                                        idx,
                                        "C16:gambit-features-differ-from-library",
                                        &format!("cfr {} on a Gambit file with features {:?} prints strategies that differ by {} from Game::solve(Full, {}, 0, 1, {}) on the game the file describes ({})", args2.join(" "), efg2.features, d, t2, spec2.name(), desc),
                                        json!({"efg_file": efg2.text, "args": args2, "library": lib2.profile, "printed": p2.profile}),
                                    );
                                    return;
                                }
                            }
                        }
                    }
                }
            }
            // ---- (d) behavioural signatures of the sampled methods (constructed games) ----
            3 => {
                // a matrix game with a properly mixed solution, and a chance move over two of them
                let (n1, m1) = (rng.range(3, 4), rng.range(3, 4));
                let ga = gen::random_matrix(rng, n1, m1);
                let gb = gen::random_matrix(rng, n1, m1);
                let relabel = |t: &crate::tree::HNode, tag: &str| -> crate::tree::HNode {
                    fn rec(t: &crate::tree::HNode, tag: &str) -> crate::tree::HNode {
                        match t {
                            crate::tree::HNode::Player { p, info, acts } => crate::tree::HNode::Player { p: *p, info: format!("{}{}", info, tag), acts: acts.iter().map(|(a, k)| (a.clone(), rec(k, tag))).collect() },
                            other => other.clone(),
                        }
                    }
                    rec(t, tag)
                };
                let with_chance = rng.chance(0.5);
                let game = if with_chance { gen::chance(None, vec![(1.0, relabel(&ga, "A")), (1.0, relabel(&gb, "B"))]) } else { ga.clone() };
                let fg = files::write_json(rng, &game);
                let gflat = Flat::new(&fg.tree);
                let gpath = cli::write_game_file(&scratch, &format!("{}-sig", stem), &fg, None);
                let common: Vec<String> = vec!["-d".into(), "vanilla".into(), "-t".into(), "20".into(), "-p".into(), "1".into(), "-i".into(), gpath.clone()];
                let with_m = |m: &str| -> Vec<String> { ["-m".to_string(), m.to_string()].into_iter().chain(common.iter().cloned()).collect() };
                let runs: Vec<_> = ["full", "full", "sampled", "sampled", "external", "external"].iter().map(|m| run_cli(&cli_path, &with_m(m), None, &gflat)).collect();
                let _ = std::fs::remove_file(&gpath);
                if runs.iter().any(|r| r.is_err()) {
                    ctx.inconclusive("cli-run-failed(see C15)");
                    return;
                }
                let r: Vec<Printed> = runs.into_iter().map(|x| x.unwrap()).collect();
                let sdetail = || json!({"file": fg.text, "args": common});
                if max_diff(&r[0].profile, &r[1].profile) != 0.0 {
                    ctx.violation(idx, "C16:full-not-repeatable", "two runs of -m full differ", sdetail());
                    return;
                }
                // properly mixed: every infoset of the full solution has an action strictly inside (0.05, 0.95)
                let mixed = r[0].profile.iter().all(|pl| pl.iter().all(|v| v.len() < 2 || v.iter().any(|q| *q > 0.05 && *q < 0.95)));
                if !with_chance && max_diff(&r[2].profile, &r[0].profile) != 0.0 {
                    ctx.violation(idx, "C16:sampled-differs-from-full-on-chance-free-game", &format!("-m sampled differs from -m full by {} on a game without chance nodes", max_diff(&r[2].profile, &r[0].profile)), sdetail());
                    return;
                }
                if mixed {
                    if with_chance && max_diff(&r[2].profile, &r[0].profile) == 0.0 && max_diff(&r[3].profile, &r[0].profile) == 0.0 {
                        ctx.violation(idx, "C16:sampled-bit-equal-to-full-where-chance-matters", "-m sampled printed exactly the -m full result twice on a chance move over two different matrix games with mixed solutions", sdetail());
                        return;
                    }
                    if max_diff(&r[4].profile, &r[0].profile) == 0.0 && max_diff(&r[5].profile, &r[0].profile) == 0.0 {
                        ctx.violation(idx, "C16:external-bit-equal-to-full", "-m external printed exactly the -m full result twice on a matrix game with a properly mixed solution", sdetail());
                        return;
                    }
                    if max_diff(&r[4].profile, &r[5].profile) == 0.0 {
                        ctx.count("external-repetitions-identical(not judged)", 1);
                    }
                    ctx.count(if with_chance { "signature-cases:with-chance:mixed" } else { "signature-cases:chance-free:mixed" }, 1);
                } else {
                    ctx.count("signature-cases:not-properly-mixed(only repeatability judged)", 1);
                }
                ctx.ok(mix(crate::rng::hash_str(&fg.text) ^ 0x5a), true);
            }
            // ---- (e) clip threshold ----
            _ => {
                let (dname, spec) = *rng.pick(&PRESETS);
                let t = *rng.pick(&[3u64, 10, 50]);
                let c = *rng.pick(&[0.01, 0.05, 0.3, 0.5, 0.9]);
                let mut args: Vec<String> = vec!["-m".into(), "full".into(), "-d".into(), dname.into(), "-t".into(), t.to_string(), "-p".into(), "1".into(), "-c".into(), format!("{}", c)];
                // the clip rule does not depend on why the solver stopped: combine it with -r
                let r_clip = *rng.pick(&[0.0, 0.0, 0.05, 0.5, 5.0]);
                if r_clip > 0.0 {
                    args.extend(["-r".to_string(), format!("{}", r_clip)]);
                }
                args.extend(["-i".to_string(), jpath.clone()]);
                ctx.mark(idx, &args.join(" "));
                let printed = match run_cli(&cli_path, &args, None, flat) {
                    Ok(p) => p,
                    Err((sig, _)) if sig == "watchdog" => {
                        ctx.inconclusive("cli-watchdog");
                        return;
                    }
                    Err((sig, msg)) => {
                        ctx.violation(idx, &format!("C16:clip:{}", sig), &format!("cfr {}: {} ({})", args.join(" "), msg, desc), detail(&args, json!({})));
                        return;
                    }
                };
                let cfg = Cfg { method: SolveMethod::Full, iters: t, max_reg: r_clip, threads: 1, params: spec };
                let Outcome::Ok(lib) = solve::run(&prep, &cfg, None) else {
                    ctx.inconclusive("library-solve-failed(see C05)");
                    return;
                };
                // S' = truncate(c) by its specification (C18), on the harness side
                let mut pruned = lib.profile.clone();
                for p in 0..2 {
                    for v in pruned[p].iter_mut() {
                        let tot: f64 = v.iter().filter(|x| **x > c).sum();
                        if tot > 0.0 {
                            for x in v.iter_mut() {
                                *x = if *x > c { *x / tot } else { 0.0 };
                            }
                        }
                    }
                }
                let (r0, r1) = (oracle::evaluate(flat, &lib.profile).total(), oracle::evaluate(flat, &pruned).total());
                let is_orig = max_diff(&printed.profile, &lib.profile) <= 1e-12;
                let is_pruned = max_diff(&printed.profile, &pruned) <= 1e-12;
                let margin = 1e-9 * scale;
                let verdict = if !(is_orig || is_pruned) {
                    Some("printed-profile-is-neither-the-solution-nor-its-truncation")
                } else if is_orig && is_pruned {
                    None
                } else if r1 < r0 - margin && !is_pruned {
                    Some("pruned-profile-has-lower-regret-but-unpruned-was-printed")
                } else if r1 > r0 + margin && !is_orig {
                    Some("pruned-profile-has-higher-regret-but-was-printed")
                } else {
                    None
                };
                if let Some(v) = verdict {
                    ctx.violation(idx, &format!("C16:clip:{}", v), &format!("cfr {}: regret of the solution {} and of its truncation {}; printed is_solution={} is_truncation={} ({})", args.join(" "), r0, r1, is_orig, is_pruned, desc), detail(&args, json!({"solution": lib.profile, "truncation": pruned, "printed": printed.profile})));
                    return;
                }
                if (r1 - r0).abs() <= margin && !(is_orig && is_pruned) {
                    ctx.dont_care("clip-regrets-equal-within-rounding");
                    return;
                }
                ctx.count(if is_orig && is_pruned { "clip:no-op" } else if is_pruned { "clip:pruned-printed" } else { "clip:unpruned-printed" }, 1);
                ctx.ok(mix(crate::rng::hash_str(&json_fg.text) ^ crate::rng::hash_str(&args[..args.len() - 1].join(" "))), flat.num_decision_infosets() > 0);
            }
        }
        let _ = std::fs::remove_file(&jpath);
        let _ = Format::Json;
        let _: Option<&FileGame> = None;
        let _ = gen::METHODS;
    });
    ctx.finish(crate::report::extra(
        "cases (five kinds, rotating): (a) `-m full` with every -d preset (and the default), -t in {1,2,3,10,50,200,0=unlimited with a reachable -r, left out = the documented default 1000, then with -r absent, 0, or 0.6 x the bound reached at 1000}, -r, -p 1: printed strategies must equal Game::solve(Full, T, r, 1, documented preset) called by the harness on the same tree within 1e-9 (bit-for-bit agreement is counted, not demanded: two separately compiled binaries may differ in the last place of powf), (a') the same with -p {2,4,0}; a larger difference is inconclusive only if the library trace passed within 1e-9 of a regret-matching discontinuity; (b)+(c) the same game and options through nine routes {stdin auto, stdin explicit, file explicit, .txt auto, -o file, Gambit file, Gambit explicit, Gambit .dat auto, Gambit stdin auto}: parsed results identical to `-i game.json` (bitwise where both encodings are exact), -o leaves stdout empty and replaces whatever the output file held before (absent / longer / shorter previous content); (c') a Gambit encoding using payoffs on interior nodes, shared outcomes, outcomes attached by number only (payoffs stated at another node), repeated chance-action labels, non-zero constant sums and unnamed/mixed infoset names must print the strategies Game::solve returns on the game the file describes (harness's own semantic tree), within 1e-9 or the tolerance measured from the library trace (a larger difference is inconclusive if the library's own answer moves by at least a thousandth of it when every payoff is perturbed by a relative 1e-14..1e-13); (d) signatures of sampled methods on constructed games (a random 3-4 x 3-4 matrix game, or a chance move over two of them; -d vanilla -t 20): -m full repeatable, -m sampled equals -m full bit for bit on the chance-free game, and where the full solution is properly mixed -m sampled (with chance) and -m external never print exactly the -m full result in two repetitions; (e) clip, with and without -r {0.05,0.5,5}: with S the library solution and S' its truncation (by the C18 specification) the printed profile must be one of them, S' if its O1 regret is lower, S if higher or equal (within 1e-9 x scale: don't-care). distinct = hash(file, options/route); non-trivial = game has a decision infoset.",
        &["the harness library build has the hooks compiled in but inactive; agreement with the hook-free binary within 1e-9 on every -m full run is itself evidence that the hooks do not change what is computed", "Gambit rational probabilities are only exact for power-of-two denominators; other files are compared within rounding"],
    ));
}
