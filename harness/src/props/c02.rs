//! C02: the regret bound from an unsampled vanilla solve dominates the true regret.
//! Monitor: reference model (O1 true regret of the returned profile) against the returned bound,
//! over budgets, thresholds and thread counts.
use crate::gen::{self, ParamSpec};
use crate::oracle;
use crate::props::c05::well_formed;
use crate::report::Ctx;
use crate::rng::mix;
use crate::solve::{self, Cfg, Outcome, Prepared};
use cfr::verif::{self, Config, Sampling};
use cfr::SolveMethod;
use serde_json::json;

pub fn run(ctx: &mut Ctx) {
    let quick = ctx.quick();
    let n = if quick { 40_000 } else { 2_000_000 };
    ctx.run_cases(n, |ctx, idx, rng| {
        let size = *rng.pick(&[0usize, 1, 1, 2]);
        let (desc, tree) = gen::any_game(rng, size);
        let prep = match Prepared::new(&tree) {
            Ok(p) => p,
            Err(e) => {
                ctx.violation(idx, "C02:prepare", &format!("{} ({})", e, desc), json!({"game": tree.to_json()}));
                return;
            }
        };
        let d = prep.flat.payoff_range();
        let scale = prep.flat.effective_scale().max(1e-300);
        let mut prev_bounds: Vec<f64> = Vec::new();
        for k in 0..5 {
            // long runs on small games: the bound falls like 1/sqrt(T), so a true regret that
            // stops improving is left far above it
            let long = idx % 16 == 3 && prep.flat.nodes.len() <= 60 && k < 1;
            let iters = if long { 10_000u64 } else { *rng.pick(&[1u64, 1, 2, 3, 5, 10, 30, 100, 300, 1000]) };
            let iters = if prep.flat.nodes.len() > 300 { iters.min(100) } else { iters };
            let threads = if long { *rng.pick(&[1usize, 2, 2, 3, 4]) } else { *rng.pick(&[1usize, 1, 2, 3, 4, 8, 16]) };
            let threads = crate::props::c06::frontier_threads(rng, &tree, SolveMethod::Full, threads);
            if long {
                ctx.count("long_runs(T>=10000)", 1);
            }
            // thresholds: zero, around bounds seen so far on this game, random fraction of the range
            let max_reg = match k {
                0 => 0.0,
                _ if !prev_bounds.is_empty() && rng.chance(0.6) => *rng.pick(&prev_bounds) * *rng.pick(&[0.5, 1.0, 1.0000001, 2.0, 10.0]),
                _ => rng.unit() * d,
            };
            let cfg = Cfg { method: SolveMethod::Full, iters, max_reg, threads, params: ParamSpec::Vanilla };
            ctx.mark(idx, &cfg.describe());
            let hook = if threads > 1 && rng.chance(0.5) { Some(Config { flags: verif::JITTER, sampling: Sampling::Production, jitter_seed: rng.next() }) } else { None };
            let detail = || json!({"game": tree.to_json(), "cfg": cfg.describe(), "desc": desc});
            match solve::run(&prep, &cfg, hook) {
                Outcome::Panic(msg) => {
                    ctx.violation(idx, "C02:panic", &format!("{} panicked: {}", cfg.describe(), msg), detail());
                    return;
                }
                Outcome::Err(_) => ctx.inconclusive("thread-spawn-error"),
                Outcome::Ok(out) => {
                    if let Err((sig, msg)) = well_formed(&out, 1) {
                        ctx.violation(idx, &format!("C02:{}", sig), &format!("{}: {}", cfg.describe(), msg), detail());
                        return;
                    }
                    let ev = oracle::evaluate(&prep.flat, &out.profile);
                    let truth = ev.total();
                    prev_bounds.push(out.total_bound);
                    ctx.max("max_true_regret_minus_bound_over_scale", (truth - out.total_bound) / scale);
                    if out.total_bound < truth - 1e-9 * scale {
                        ctx.violation(
                            idx,
                            &format!("C02:bound-below-true-regret{}", if threads > 1 { ":multi" } else { "" }),
                            &format!("{}: returned total bound {} but the true regret of the returned profile is {} (per player bounds {:?}, true regrets {:?}) on {}", cfg.describe(), out.total_bound, truth, out.bounds, ev.regret, desc),
                            detail(),
                        );
                        return;
                    }
                    if out.total_bound < max_reg && !(truth < max_reg + 1e-9 * scale) {
                        ctx.violation(idx, "C02:stopped-below-threshold-but-true-regret-above", &format!("{}: bound {} < threshold but true regret {}", cfg.describe(), out.total_bound, truth), detail());
                        return;
                    }
                    if out.total_bound < max_reg {
                        ctx.count("runs_ending_below_threshold", 1);
                    }
                    ctx.count(&format!("threads:{}", threads), 1);
                    ctx.ok(mix(tree.structural_hash() ^ crate::rng::hash_str(&cfg.describe())), prep.flat.num_decision_infosets() > 0);
                    ctx.sample(3, || json!({"game": tree.brief(120), "cfg": cfg.describe(), "bound": out.total_bound, "true_regret": truth}));
                }
            }
        }
    });
    ctx.finish(crate::report::extra(
        "cases = solve(Full, T, r, k, vanilla) calls on G1/G2 games: T in {1,2,3,5,10,30,100,300,1000} (and 10000 with k in {1,2,3,4} on games of <= 60 nodes, one case in sixteen), k in {1,2,3,4,8,16} (half of the parallel runs under schedule jitter), r in {0, multiples {0.5,1,1+1e-7,2,10} of bounds already observed on the same game, random fraction of the payoff range}. The returned profile is evaluated by O1; required: total bound >= true total regret - 1e-9*max|payoff| (only the total is a theorem; per-player comparison is not demanded), per-player bounds non-negative and not NaN, total = max, and a run ending below the threshold has true regret below it. distinct = hash(tree, configuration); non-trivial = game has a decision infoset.",
        &["O1 as in C01", "tolerance 1e-9 x min(max|payoff|, sum over terminals of chance reach x |payoff|) (observed slack on correct code is -1e-16)"],
    ));
}
