//! C06 / C07: thread-count invariance of the unsampled solver, and of the sampled solvers once
//! the sampling decisions are fixed.
//! Monitors: (1) differential of k-thread against 1-thread runs under schedule jitter (H5),
//! oversubscription and repetition, with the trace-margin rule for regret-matching
//! discontinuities; (2) the O3 step checker with the exactly-once visit monitor (H4) and the
//! one-draw-per-infoset-per-pass monitor (H2) on every k-thread run, which needs no comparison.
use crate::gen::{self, ParamSpec};
use crate::props::c08::{forced_rarest, forced_round_robin};
use crate::report::Ctx;
use crate::rng::{mix, Rng};
use crate::solve::{self, Cfg, Outcome, Prepared};
use cfr::verif::{self, Config, Event, Sampling};
use cfr::SolveMethod;
use serde_json::json;
use std::collections::HashSet;

fn schedule_hashes(events: &[Event]) -> (u64, u64, usize) {
    // (assignment hash: set of (node, thread); order hash: sequence of nodes; threads used)
    let mut assign: Vec<(usize, usize, u64)> = Vec::new();
    let mut order = 7u64;
    let mut threads: HashSet<usize> = HashSet::new();
    for e in events {
        if let Event::Visit { node, thread, pass, .. } = e {
            assign.push((*node, *thread, *pass));
            order = mix(order ^ (*node as u64) ^ (*pass << 48));
            threads.insert(*thread);
        }
    }
    assign.sort();
    let mut h = 11u64;
    for (n, t, p) in assign {
        h = mix(h ^ n as u64 ^ ((t as u64) << 52) ^ (p << 40));
    }
    (h, order, threads.len())
}

/// For a multi-threaded run: mostly the thread count for which the solvers' frontier search leaves
/// the most tasks for the pool (see `HNode::frontier_tasks`), so that the frontier code is on the
/// path of the run at all
pub fn frontier_threads(rng: &mut crate::rng::Rng, tree: &crate::tree::HNode, method: cfr::SolveMethod, threads: usize) -> usize {
    if threads > 1 && rng.chance(0.6) {
        let (t, tasks) = tree.best_threads(crate::solve::frontier_modes(method), &[2, 3, 4, 5, 6, 8, 12, 16]);
        if tasks >= 2 {
            return t;
        }
    }
    threads
}

fn sampling_for(rng: &mut Rng, method: SolveMethod) -> (String, Box<dyn Fn() -> Sampling>) {
    if method == SolveMethod::Full {
        return ("none".into(), Box::new(|| Sampling::Production));
    }
    match rng.below(5) {
        0 => ("forced-round-robin".into(), Box::new(forced_round_robin)),
        1 => ("forced-rarest".into(), Box::new(forced_rarest)),
        _ => {
            let s = rng.next();
            (format!("seeded({})", s), Box::new(move || Sampling::Seeded(s)))
        }
    }
}

pub fn run_generic(ctx: &mut Ctx, id: &'static str, methods: &'static [SolveMethod]) {
    let quick = ctx.quick();
    let n = if quick { 14_000 } else { 700_000 };
    let mut assignments: HashSet<u64> = HashSet::new();
    let mut orders: HashSet<u64> = HashSet::new();
    ctx.run_cases(n, |ctx, idx, rng| {
        let size = *rng.pick(&[0usize, 1, 1, 2, 2]);
        let contention = idx % 4 == 3;
        // the frontier search of the parallel solvers only hands the still unexpanded nodes of the
        // level on which the task target (3 x threads) is reached to the pool; the fan shapes are
        // sized against a thread count so that almost the whole fan becomes tasks
        let mut fan_threads: Option<usize> = None;
        let (desc, tree) = if contention && rng.chance(0.25) {
            let t = *rng.pick(&[2usize, 3, 4, 4, 8]);
            fan_threads = Some(t);
            let k = (3 * t - 1 - rng.below(2)).max(3);
            if rng.chance(0.6) {
                (format!("shared_chance_fan_below(k={},threads={})", k, t), gen::shared_chance_fan_below(rng, k, k > 12))
            } else {
                (format!("shared_chance_fan(k={},threads={})", k, t), gen::shared_chance_fan(rng, k))
            }
        } else if contention {
            // contention workload: wide trees in which every move is hidden and chance infosets are
            // shared, so that one player infoset / one chance infoset lies below many frontier
            // nodes handed to different workers
            let mut par = gen::GenParams::random(rng, 2);
            par.hide_rate = 1.0;
            par.p_term = 0.0;
            par.p_chance = *rng.pick(&[0.1, 0.25, 0.4]);
            par.p_shared_chance = 1.0;
            par.max_actions = rng.range(3, 5);
            par.max_outcomes = rng.range(2, 4);
            par.max_depth = rng.range(3, 5);
            par.node_budget = rng.range(120, 500);
            (format!("g1-contention(depth<={},budget={},acts<={},chance={})", par.max_depth, par.node_budget, par.max_actions, par.p_chance), gen::random_tree(rng, &par))
        } else {
            // most small random games are too narrow for the frontier search to leave any task for
            // the pool: prefer (not require) games on which some method of this property can run
            // in parallel for some thread count
            let want_parallel = rng.chance(0.7);
            let mut g = gen::any_game(rng, size);
            for _ in 0..5 {
                if !want_parallel || methods.iter().any(|m| g.1.best_threads(solve::frontier_modes(*m), &[2, 3, 4, 5, 6, 8, 12, 16]).1 >= 2) {
                    break;
                }
                g = gen::any_game(rng, size);
            }
            g
        };
        if tree.count_nodes() > 700 {
            ctx.count("skipped-large", 1);
            return;
        }
        let prep = match Prepared::new(&tree) {
            Ok(p) => p,
            Err(e) => {
                ctx.violation(idx, &format!("{}:prepare", id), &format!("{} ({})", e, desc), json!({"game": tree.to_json()}));
                return;
            }
        };
        let mut method = *rng.pick(methods);
        let cands = [2usize, 3, 4, 5, 6, 8, 12, 16];
        if methods.len() > 1 && tree.best_threads(solve::frontier_modes(method), &cands).1 < 2 && rng.chance(0.6) {
            // a method of this property whose frontier search leaves tasks on this game, if any
            if let Some(m) = methods.iter().copied().find(|m| tree.best_threads(solve::frontier_modes(*m), &cands).1 >= 2) {
                method = m;
            }
        }
        let params = if rng.chance(0.6) { ParamSpec::random(rng) } else { ParamSpec::random_custom(rng) };
        let iters = *rng.pick(&[1u64, 2, 2, 3, 3, 4, 4, 7, 7, 20, 100, 0]);
        let iters = if prep.flat.nodes.len() > 200 { iters.min(20) } else { iters };
        let max_reg = if rng.chance(0.15) { rng.unit() * prep.flat.payoff_range() } else { 0.0 };
        let (sname, mk_sampling) = sampling_for(rng, method);
        let base_cfg = Cfg { method, iters, max_reg, threads: 1, params };
        ctx.mark(idx, &base_cfg.describe());
        let base = match solve::run(&prep, &base_cfg, Some(Config { flags: solve::ALL_LOGS, sampling: mk_sampling(), jitter_seed: 0 })) {
            Outcome::Ok(o) => o,
            Outcome::Err(_) => {
                ctx.inconclusive("single-thread-error(see C05)");
                return;
            }
            Outcome::Panic(msg) => {
                ctx.violation(idx, &format!("{}:panic:single", id), &format!("{} panicked: {}", base_cfg.describe(), msg), json!({"game": tree.to_json()}));
                return;
            }
        };
        let base_stats = match solve::step_check(&prep, &base_cfg, &base, true) {
            Ok(s) => s,
            Err((sig, msg)) => {
                // the single-threaded run itself is wrong: C08's business; without a sound baseline
                // the comparison is meaningless
                ctx.inconclusive("single-thread-trace-rejected(see C08)");
                ctx.sample(20, || json!({"single_thread_trace_rejected": sig, "msg": msg, "cfg": base_cfg.describe()}));
                return;
            }
        };
        // concurrent callers: the same solve issued from three user threads at once on the one
        // shared Game value (no hooks installed: the event log is process-global) must return, in
        // every caller, exactly the bits of the sequential single-threaded run
        if method == SolveMethod::Full && idx % 16 == 5 && prep.flat.nodes.len() <= 300 {
            let outs: Vec<Outcome> = std::thread::scope(|sc| {
                let hs: Vec<_> = (0..3).map(|_| sc.spawn(|| solve::run(&prep, &base_cfg, None))).collect();
                hs.into_iter().map(|h| h.join().unwrap_or_else(|_| Outcome::Panic("caller thread died".into()))).collect()
            });
            ctx.count("concurrent-caller-groups(3 user threads, one Game)", 1);
            for o in outs {
                match o {
                    Outcome::Ok(o) => {
                        let same = o.dense == base.dense && o.bounds[0].to_bits() == base.bounds[0].to_bits() && o.bounds[1].to_bits() == base.bounds[1].to_bits();
                        if !same {
                            ctx.violation(
                                idx,
                                &format!("{}:concurrent-callers-differ-from-sequential", id),
                                &format!("{} called from three user threads at once on one Game: a caller got a result that is not bit-identical to the sequential run (bounds {:?} vs {:?}) on {}", base_cfg.describe(), o.bounds, base.bounds, desc),
                                json!({"game": tree.to_json(), "cfg": base_cfg.describe(), "desc": desc}),
                            );
                            return;
                        }
                    }
                    Outcome::Panic(msg) => {
                        ctx.violation(idx, &format!("{}:panic:concurrent-callers", id), &format!("{} panicked when called from three user threads at once: {}", base_cfg.describe(), msg), json!({"game": tree.to_json(), "cfg": base_cfg.describe()}));
                        return;
                    }
                    Outcome::Err(_) => ctx.inconclusive("thread-spawn-error"),
                }
            }
        }
        let reps = if quick { 2 } else { 3 };
        for rep in 0..reps {
            let mut threads = if contention { *rng.pick(&[4usize, 8, 8, 16, 16]) } else { *rng.pick(&[2usize, 2, 3, 3, 4, 4, 8, 16, 64]) };
            if let Some(t) = fan_threads {
                threads = t;
            } else if rng.chance(0.8) {
                // the thread count for which the modelled frontier has the most tasks
                let modes = solve::frontier_modes(method);
                let (t, tasks) = tree.best_threads(modes, &[2, 3, 4, 5, 6, 8, 12, 16]);
                if tasks >= 2 {
                    threads = t;
                    ctx.count("thread-count-chosen-for-most-frontier-tasks", 1);
                } else {
                    ctx.count("no-thread-count-gives-two-frontier-tasks(modelled)", 1);
                }
            }
            let cfg = Cfg { threads, ..base_cfg };
            let jitter = contention || rng.chance(0.7);
            let flags = solve::ALL_LOGS | if jitter { verif::JITTER } else { 0 };
            ctx.mark(idx, &cfg.describe());
            let detail = || json!({"game": tree.to_json(), "cfg": cfg.describe(), "sampling": sname, "desc": desc, "rep": rep});
            match solve::run(&prep, &cfg, Some(Config { flags, sampling: mk_sampling(), jitter_seed: rng.next() })) {
                Outcome::Err(_) => ctx.inconclusive("thread-spawn-error"),
                Outcome::Panic(msg) => {
                    ctx.violation(idx, &format!("{}:panic:{}", id, gen::method_name(method)), &format!("{} panicked: {} (sampling {}, on {})", cfg.describe(), msg, sname, desc), detail());
                    return;
                }
                Outcome::Ok(out) => {
                    let (ah, oh, used) = schedule_hashes(&out.events);
                    assignments.insert(ah);
                    orders.insert(oh);
                    ctx.max("max_threads_seen_processing_nodes_in_one_run", used as f64);
                    ctx.count(&format!("runs_in_which_{}_workers_processed_nodes", match used { 0 | 1 => "1", 2 => "2", 3 | 4 => "3-4", 5..=8 => "5-8", _ => "9+" }), 1);
                    let stats = match solve::step_check(&prep, &cfg, &out, true) {
                        Ok(s) => s,
                        Err((sig, msg)) => {
                            ctx.violation(idx, &format!("{}:trace:{}:{}", id, sig, gen::method_name(method)), &format!("{} [{} sampling {} on {}]", msg, cfg.describe(), sname, desc), detail());
                            return;
                        }
                    };
                    ctx.count("visits_checked", stats.visits_checked);
                    ctx.count("draws_checked", stats.draws_checked);
                    ctx.count("passes_checked", stats.passes);
                    if let Some(diff0) = solve::same_within(&out, &base, 1e-9, prep.flat.max_abs_payoff()) {
                        let margin = stats.min_margin.min(base_stats.min_margin);
                        // second look with the tolerance widened by the measured conditioning of each
                        // returned average strategy (an infoset whose owner reaches it with
                        // probability ~1e-13 in one summation order and 0 in the other)
                        let (diff, skipped) = solve::same_within_cond(&out, &base, &stats, &base_stats, prep.flat.max_abs_payoff(), 1.0);
                        let Some(diff) = diff else {
                            ctx.count("equal-only-within-conditioning-aware-tolerance", 1);
                            ctx.count("ill-conditioned-infosets-not-compared", skipped);
                            ctx.ok(mix(mix(tree.structural_hash() ^ crate::rng::hash_str(&cfg.describe())) ^ mix(crate::rng::hash_str(&sname) ^ ah)), prep.flat.num_decision_infosets() > 0);
                            continue;
                        };
                        let _ = diff0;
                        // stability probe: would a 1e-13 perturbation of the payoffs move the
                        // 1-thread result as much? then summation order alone explains it
                        let judged = solve::max_difference(&out, &base, prep.flat.max_abs_payoff());
                        let probe = solve::stability_probe(&tree, &base_cfg, &*mk_sampling, &base, idx);
                        if probe >= judged / 1000.0 {
                            ctx.count("unstable-dynamics(1e-13-payoff-perturbation-moves-the-output-comparably)", 1);
                            ctx.inconclusive("outputs-differ-but-the-solve-is-unstable-under-1e-13-relative-payoff-perturbations");
                            continue;
                        }
                        if margin < 1e-9 {
                            ctx.inconclusive("outputs-differ-but-a-trace-passed-within-1e-9-of-a-regret-matching-discontinuity");
                            continue;
                        }
                        // the two logs side by side: rounding noise amplified smoothly by the
                        // iteration itself (every step of both runs already passed the step checker),
                        // or a jump?
                        if let Some(at) = solve::smooth_divergence(&out, &base, prep.flat.max_abs_payoff(), 100.0) {
                            ctx.count("outputs-differ-by-smoothly-amplified-rounding-noise", 1);
                            ctx.sample(5, || json!({"smooth_divergence_from_snapshot": at, "cfg": cfg.describe(), "game": tree.brief(100), "difference": diff}));
                            ctx.inconclusive("outputs-differ-but-the-difference-grows-smoothly-from-rounding-noise(<100x-per-snapshot)");
                            continue;
                        }
                        ctx.violation(
                            idx,
                            &format!("{}:differs-from-single-thread:{}", id, gen::method_name(method)),
                            &format!("{} differs from the same solve with one thread: {} (smallest regret-matching margin {:e}; sampling {}; on {})", cfg.describe(), diff, margin, sname, desc),
                            detail(),
                        );
                        return;
                    }
                    ctx.count(&format!("threads:{}", threads), 1);
                    ctx.count(&format!("method:{}", gen::method_name(method)), 1);
                    ctx.count(&format!("budget:{}", iters), 1);
                    if jitter {
                        ctx.count("runs_under_jitter", 1);
                    }
                    ctx.ok(mix(mix(tree.structural_hash() ^ crate::rng::hash_str(&cfg.describe())) ^ mix(crate::rng::hash_str(&sname) ^ ah)), prep.flat.num_decision_infosets() > 0);
                    ctx.sample(3, || json!({"game": tree.brief(100), "cfg": cfg.describe(), "sampling": sname, "threads_that_processed_nodes": used, "visit_events": stats.visits_checked, "draw_events": stats.draws_checked}));
                }
            }
        }
    });
    ctx.count("distinct_node_to_thread_assignments_observed(sum over shards)", assignments.len() as u64);
    ctx.count("distinct_visit_orders_observed(sum over shards)", orders.len() as u64);
    let (what, extra_assume): (&str, &str) = if id == "C06" {
        ("solve(Full, ...)", "Full makes no draws (checked by the draw monitor)")
    } else {
        ("solve(Sampled|External, ...) under fixed sampling decisions (seeded, forced round-robin, forced rarest outcome)", "seeded/forced sampling makes the draw at (site, infoset, pass) a pure function, so 1- and k-thread runs see the same sampled tree")
    };
    ctx.finish(crate::report::extra(
        &format!("cases = k-thread runs of {} on G1/G2 games (<=700 nodes): random parameter sets (presets, None, custom tuples), budgets {{1,2,3,4,7,20,100}} (small budgets weighted up), thresholds {{0, random}}, k in {{2,3,4,8,16,64}}, every fourth case a contention workload (wide trees, all moves hidden, shared chance infosets, 4-16 threads, always jittered, incl. jitter while an infoset lock is held), 2-3 repetitions per configuration with fresh jitter seeds (70% of runs with hook-H5 yields/spins/sleeps between critical sections), 16 worker processes at once (oversubscription). Each run is (1) step-checked by O3 including the exactly-once visit monitor and the one-draw-per-infoset-per-pass monitor and (2) compared with the logged 1-thread run of the same configuration within 1e-9; a difference is inconclusive (not a violation) only if a trace passed within 1e-9 relative of a regret-matching discontinuity, or if the stability probe (the 1-thread solve repeated with every payoff perturbed by a relative 1e-14..1e-13) moves the output by at least a thousandth of the difference; the step checker decides those runs regardless. A remaining difference is also inconclusive if the two state logs, compared snapshot by snapshot, show it growing smoothly out of rounding noise (no snapshot more than 100x the largest difference before it, floor 1e-10): amplification by the iteration itself, every step of which the step checker has verified; a defect shows as a jump. Panics inside the parallel solver (e.g. try_lock on a contended infoset) are violations. For Full, one case in sixteen additionally issues the single-threaded solve from three user threads at once on the one shared Game value (no hooks): every caller must get exactly the bits of the sequential run. distinct = hash(tree, configuration, sampling, node-to-thread assignment); non-trivial = game has a decision infoset. Schedules actually observed are measured: distinct (node,thread,pass) assignments and distinct visit orders.", what),
        &["the schedules explored are those the rayon pool produced under jitter and oversubscription; nothing is claimed about schedules not observed", extra_assume],
    ));
}

pub fn run(ctx: &mut Ctx) {
    run_generic(ctx, "C06", &[SolveMethod::Full]);
}
