//! C03: the unsampled solve converges at the CFR rate on every game.
//! Monitor: envelope on measured regret (O1) and returned bounds with D, N, A computed by the
//! harness from its own tree. "Regret tends to zero" is restated as the finite-T envelopes.
use crate::gen::{self, ParamSpec};
use crate::oracle;
use crate::report::Ctx;
use crate::rng::mix;
use crate::solve::{self, Cfg, Outcome, Prepared};
use cfr::SolveMethod;
use serde_json::json;

pub fn run(ctx: &mut Ctx) {
    let quick = ctx.quick();
    let n = if quick { 80_000 } else { 3_000_000 };
    ctx.run_cases(n, |ctx, idx, rng| {
        let (desc, tree) = if rng.chance(0.35) {
            // adversarial shapes: deep chains, wide infosets, rare chance, dominated actions
            let w = *rng.pick(&[5usize, 6, 7, 8, 10, 12, 13, 3, 4, 14, 15, 16, 16, 18]);
            gen::structured(rng, w)
        } else {
            let size = *rng.pick(&[0usize, 1, 1, 2]);
            gen::any_game(rng, size)
        };
        let prep = match Prepared::new(&tree) {
            Ok(p) => p,
            Err(e) => {
                ctx.violation(idx, "C03:prepare", &format!("{} ({})", e, desc), json!({"game": tree.to_json()}));
                return;
            }
        };
        let d = prep.flat.payoff_range();
        let nn = prep.flat.num_decision_infosets() as f64;
        let a = prep.flat.max_actions() as f64;
        let nodes = prep.flat.nodes.len();
        let scale = prep.flat.max_abs_payoff().max(1e-300);
        // long runs on small games: at small T the envelope is so wide that a solver whose regret
        // stops improving (frozen infosets) stays inside it; at T = 1e4..1e5 it does not
        let long = idx % 5 == 4 && nodes <= 60;
        let budgets: &[u64] = if long { &[10_000, 30_000, 100_000] } else if nodes > 600 { &[1, 3, 10, 30, 100] } else if nodes > 150 || quick { &[1, 3, 10, 30, 100, 300, 1000] } else { &[1, 3, 10, 30, 100, 300, 1000, 3000] };
        let mut ratios: Vec<(u64, f64)> = Vec::new();
        for _ in 0..4 {
            let spec = *rng.pick(&ParamSpec::PRESETS);
            let iters = *rng.pick(budgets);
            let threads = if long { 1 } else { *rng.pick(&[1usize, 1, 1, 4, 16]) };
            let threads = crate::props::c06::frontier_threads(rng, &tree, SolveMethod::Full, threads);
            let cfg = Cfg { method: SolveMethod::Full, iters, max_reg: 0.0, threads, params: spec };
            ctx.mark(idx, &cfg.describe());
            let detail = || json!({"game": tree.to_json(), "cfg": cfg.describe(), "desc": desc, "D": d, "N": nn, "A": a});
            match solve::run(&prep, &cfg, None) {
                Outcome::Panic(msg) => {
                    ctx.violation(idx, "C03:panic", &format!("{} panicked: {}", cfg.describe(), msg), detail());
                    return;
                }
                Outcome::Err(_) => ctx.inconclusive("thread-spawn-error"),
                Outcome::Ok(out) => {
                    let t = iters as f64;
                    let ev = oracle::evaluate(&prep.flat, &out.profile);
                    let env_regret = 6.0 * d * nn * (a.sqrt() + 1.0 / t.sqrt()) / t.sqrt();
                    let env_bound = 2.0 * d * nn * a.sqrt() / t.sqrt();
                    let tol = 1e-9 * scale;
                    if spec == ParamSpec::Vanilla {
                        for p in 0..2 {
                            if !(out.bounds[p] <= env_bound + tol) {
                                ctx.violation(idx, "C03:vanilla-bound-above-cfr-theorem", &format!("{}: bound of player {} is {} > 2*D*N*sqrt(A)/sqrt(T) = {} (D={}, N={}, A={}) on {}", cfg.describe(), p + 1, out.bounds[p], env_bound, d, nn, a, desc), detail());
                                return;
                            }
                        }
                        if env_bound > 0.0 {
                            ctx.max("max_vanilla_bound_over_theorem_bound", out.bounds[0].max(out.bounds[1]) / env_bound);
                        }
                    }
                    if !(ev.total() <= env_regret + tol) {
                        ctx.violation(idx, &format!("C03:regret-above-envelope:{}", spec.name()), &format!("{}: true regret {} > 6*D*N*(sqrt(A)+1/sqrt(T))/sqrt(T) = {} (D={}, N={}, A={}) on {}", cfg.describe(), ev.total(), env_regret, d, nn, a, desc), detail());
                        return;
                    }
                    if env_regret > 0.0 {
                        ctx.max("max_regret_over_envelope", ev.total() / env_regret);
                        ratios.push((iters, ev.total() / env_regret));
                    }
                    ctx.count(&format!("preset:{}", spec.name()), 1);
                    ctx.count(&format!("budget:{}", iters), 1);
                    ctx.ok(mix(tree.structural_hash() ^ crate::rng::hash_str(&cfg.describe())), nn > 0.0 && d > 0.0);
                    ctx.sample(3, || json!({"game": tree.brief(100), "desc": desc, "cfg": cfg.describe(), "true_regret": ev.total(), "envelope": env_regret, "bounds": out.bounds}));
                }
            }
        }
    });
    ctx.finish(crate::report::extra(
        "cases = solve(Full, T, 0, k, preset) calls: adversarial G2 shapes (centipede chains to depth 300, degenerate chains, one infoset over 64 nodes, 1e-6/1e-9 chance outcomes, Kuhn, Leduc-like, wide matrices, who-moves-first, hidden irrelevant moves, an irrelevant decision below a relevant one) and G1 trees x presets {vanilla,lcfr,cfr_plus,dcfr,dcfr_prune} x T in {1,3,10,30,100,300,1000,3000} x k in {1,4,16}; every fifth case on a game of <= 60 nodes runs T in {1e4,3e4,1e5} with one thread, where the envelope is tight enough to expose regret that stops improving. D (payoff range), N (multi-action infosets of both players) and A (max actions) are computed from the harness tree. Required: vanilla per-player bound <= 2*D*N*sqrt(A)/sqrt(T); for every preset O1 true regret <= 6*D*N*(sqrt(A)+1/sqrt(T))/sqrt(T). The unbounded clause 'regret tends to zero' is restated as these finite-T envelopes (a finite run cannot decide an eventuality). distinct = hash(tree, configuration); non-trivial = game has a decision infoset and a non-zero payoff range.",
        &["O1 as in C01", "deterministic method, so no statistics are involved"],
    ));
}
