//! C12: results do not depend on how the game is presented.
//! Monitor: metamorphic. Build original and transformed game, run the same evaluations and
//! deterministic solves, compare through the name bijection. Transformations that keep the
//! internal arithmetic identical must agree bit for bit; the others within rounding, with the
//! trace-margin rule for solver output.
use crate::gen::{self, ParamSpec};
use crate::report::Ctx;
use crate::rng::{mix, Rng};
use crate::solve::{self, Cfg, Outcome, Prepared};
use crate::tree::{HNode, Profile};
use cfr::verif::{Config, Sampling};
use cfr::{PlayerNum, SolveMethod};
use serde_json::json;

#[derive(Clone, Copy, Debug, PartialEq)]
enum Tr {
    WeightsTinyUnit,
    WeightsPow2,
    WeightsAny,
    Degenerate,
    Rename,
    PayoffPow2,
    PayoffAny,
    PayoffShift,
    Swap,
}

const ALL: [Tr; 9] = [Tr::WeightsTinyUnit, Tr::WeightsPow2, Tr::WeightsAny, Tr::Degenerate, Tr::Rename, Tr::PayoffPow2, Tr::PayoffAny, Tr::PayoffShift, Tr::Swap];

struct Applied {
    tree: HNode,
    /// payoff transform: u' = mul * u + add (after the swap sign)
    mul: f64,
    add: f64,
    swap: bool,
    exact: bool,
}

fn rename_info(s: &str) -> String {
    format!("<{}>", s.chars().rev().collect::<String>())
}

fn rename_act(s: &str) -> String {
    format!("act:{}", s)
}

fn unrename_info(s: &str) -> Option<String> {
    let inner = s.strip_prefix('<')?.strip_suffix('>')?;
    Some(inner.chars().rev().collect())
}

fn apply(rng: &mut Rng, tree: &HNode, tr: Tr, scale: f64) -> Applied {
    let mut counter = 0usize;
    let c_any = *rng.pick(&[0.3, 3.0, 0.1, 7.0, 1.0 / 3.0, 1.7]);
    let pow = (2.0f64).powi(rng.range(0, 8) as i32 - 4);
    // shifts are chosen relative to the payoff magnitude: a shift of 1e3 on payoffs of 1e-6 would
    // leave seven digits for the game itself, which is conditioning and not presentation
    let shift = *rng.pick(&[3.0, -1.5, 0.1, 100.0]) * if scale > 0.0 { scale } else { 1.0 };
    fn rec(n: &HNode, tr: Tr, rng: &mut Rng, counter: &mut usize, c_any: f64, pow: f64, shift: f64) -> HNode {
        let mapped = match n {
            HNode::Term(p) => HNode::Term(match tr {
                Tr::PayoffPow2 => p * pow,
                Tr::PayoffAny => p * c_any,
                Tr::PayoffShift => p + shift,
                Tr::Swap => -p,
                _ => *p,
            }),
            HNode::Chance { info, outs } => {
                let f = match tr {
                    // weights written in deep-subnormal units (positive and finite, hence legal);
                    // only used on trees whose weights are small multiples of 1/8, so that the
                    // scaled weights and all their partial sums are exact
                    Tr::WeightsTinyUnit => (2.0f64).powi(-520) * (2.0f64).powi(520 - rng.range(1030, 1060) as i32),
                    // scaling down could flush a subnormal weight to zero: only upwards then
                    // weights near the top of the range: scaling up would overflow to +inf
                    Tr::WeightsPow2 if outs.iter().any(|(w, _)| *w > 1e290) => (2.0f64).powi(-(rng.range(0, 5) as i32)),
                    Tr::WeightsAny if outs.iter().any(|(w, _)| *w > 1e290) => *rng.pick(&[1.0, 0.3, 0.1, 1.0 / 3.0]),
                    Tr::WeightsPow2 if outs.iter().any(|(w, _)| *w < 1e-290) => (2.0f64).powi(rng.range(0, 5) as i32),
                    Tr::WeightsPow2 => (2.0f64).powi(rng.range(0, 10) as i32 - 5),
                    Tr::WeightsAny => *rng.pick(&[1.0, 0.3, 3.0, 0.1, 7.0, 1.0 / 3.0]),
                    _ => 1.0,
                };
                HNode::Chance {
                    info: match tr {
                        Tr::Rename => info.as_ref().map(|s| rename_info(s)),
                        _ => info.clone(),
                    },
                    outs: outs.iter().map(|(w, k)| (w * f, rec(k, tr, rng, counter, c_any, pow, shift))).collect(),
                }
            }
            HNode::Player { p, info, acts } => HNode::Player {
                p: if tr == Tr::Swap { 1 - *p } else { *p },
                info: if tr == Tr::Rename { rename_info(info) } else { info.clone() },
                acts: acts
                    .iter()
                    .map(|(a, k)| (if tr == Tr::Rename { rename_act(a) } else { a.clone() }, rec(k, tr, rng, counter, c_any, pow, shift)))
                    .collect(),
            },
        };
        if tr == Tr::Degenerate && rng.chance(0.3) {
            *counter += 1;
            match rng.below(3) {
                0 => HNode::Chance { info: None, outs: vec![(*rng.pick(&[1.0, 0.25, 9.0]), mapped)] },
                1 => HNode::Chance { info: Some(format!("deg-c{}", counter)), outs: vec![(2.0, mapped)] },
                k => HNode::Player { p: (k + *counter) as u8 % 2, info: format!("deg-p{}", counter), acts: vec![("only".into(), mapped)] },
            }
        } else {
            mapped
        }
    }
    let t = rec(tree, tr, rng, &mut counter, c_any, pow, shift);
    let (mul, add, swap, exact) = match tr {
        Tr::WeightsTinyUnit | Tr::WeightsPow2 | Tr::Degenerate | Tr::Rename => (1.0, 0.0, false, true),
        Tr::WeightsAny => (1.0, 0.0, false, false),
        Tr::PayoffPow2 => (pow, 0.0, false, true),
        Tr::PayoffAny => (c_any, 0.0, false, false),
        Tr::PayoffShift => (1.0, shift, false, false),
        Tr::Swap => (1.0, 0.0, true, true),
    };
    Applied { tree: t, mul, add, swap, exact }
}

/// carry a profile on the original game over to the transformed game (by name)
fn map_profile(orig: &Prepared, new: &Prepared, prof: &Profile, tr: Tr) -> Option<Profile> {
    let mut out: Profile = [
        new.flat.info_actions[0].iter().map(|a| vec![1.0; a.len()]).collect(),
        new.flat.info_actions[1].iter().map(|a| vec![1.0; a.len()]).collect(),
    ];
    for p in 0..2 {
        let op = if tr == Tr::Swap { 1 - p } else { p };
        for (i, name) in new.flat.info_names[p].iter().enumerate() {
            if name.starts_with("deg-p") {
                continue;
            }
            let oname = if tr == Tr::Rename { unrename_info(name)? } else { name.clone() };
            let oi = *orig.flat.name_to_info[op].get(&oname)?;
            if orig.flat.info_actions[op][oi].len() != new.flat.info_actions[p][i].len() {
                return None;
            }
            out[p][i] = prof[op][oi].clone();
        }
    }
    Some(out)
}

fn info_of(prep: &Prepared, prof: &Profile) -> Option<(f64, [f64; 2])> {
    let s = crate::bridge::inject(&prep.game, &prep.flat, prof).ok()?;
    let i = s.get_info();
    Some((i.player_utility(PlayerNum::One), [i.player_regret(PlayerNum::One), i.player_regret(PlayerNum::Two)]))
}

pub fn run(ctx: &mut Ctx) {
    let quick = ctx.quick();
    let n = if quick { 600_000 } else { 30_000_000 };
    ctx.run_cases(n, |ctx, idx, rng| {
        let (desc, tree) = crate::props::c08::small_game(rng);
        let orig = match Prepared::new(&tree) {
            Ok(p) => p,
            Err(e) => {
                ctx.violation(idx, "C12:prepare", &format!("{} ({})", e, desc), json!({"game": tree.to_json()}));
                return;
            }
        };
        let scale = orig.flat.max_abs_payoff().max(1e-300);
        let mut tr = ALL[rng.below(ALL.len())];
        if tr == Tr::WeightsTinyUnit {
            fn dyadic(n: &HNode) -> bool {
                match n {
                    HNode::Term(_) => true,
                    HNode::Chance { outs, .. } => outs.iter().all(|(w, k)| (w * 8.0).fract() == 0.0 && *w <= 1024.0 && dyadic(k)),
                    HNode::Player { acts, .. } => acts.iter().all(|(_, k)| dyadic(k)),
                }
            }
            if !dyadic(&tree) {
                tr = Tr::WeightsPow2;
            }
        }
        if tr == Tr::WeightsAny {
            // c x w is correctly rounded (relative error 2^-53) only for normal numbers; subnormal
            // weights keep few bits, and c x w is then a slightly different game
            fn min_weight(n: &HNode) -> f64 {
                match n {
                    HNode::Term(_) => f64::INFINITY,
                    HNode::Chance { outs, .. } => outs.iter().map(|(w, k)| w.min(min_weight(k))).fold(f64::INFINITY, f64::min),
                    HNode::Player { acts, .. } => acts.iter().map(|(_, k)| min_weight(k)).fold(f64::INFINITY, f64::min),
                }
            }
            if min_weight(&tree) < 1e-290 {
                tr = Tr::WeightsPow2;
            }
        }
        let ap = apply(rng, &tree, tr, orig.flat.max_abs_payoff());
        let mut ap = ap;
        let min_prob = orig.flat.chance_probs.iter().flatten().cloned().fold(f64::INFINITY, f64::min);
        if min_prob < 1e-290 && matches!(tr, Tr::PayoffPow2 | Tr::WeightsPow2 | Tr::WeightsTinyUnit) {
            // with chance probabilities in or below the subnormal range, reach x payoff products are
            // rounded on the subnormal grid, which a power-of-two scaling shifts: equal within
            // rounding (margin rule), not bit for bit
            ap.exact = false;
        }
        {
            // a chance node whose weights sum to more than f64::MAX is normalised along another
            // path of arithmetic than its scaled-down twin: equal within rounding, not bit for bit
            fn max_weight(n: &HNode) -> f64 {
                match n {
                    HNode::Term(_) => 0.0,
                    HNode::Chance { outs, .. } => outs.iter().map(|(w, k)| w.max(max_weight(k))).fold(0.0, f64::max),
                    HNode::Player { acts, .. } => acts.iter().map(|(_, k)| max_weight(k)).fold(0.0, f64::max),
                }
            }
            if max_weight(&tree) > 1e290 {
                ap.exact = false;
            }
        }
        let trn = format!("{:?}", tr);
        let new = match Prepared::new(&ap.tree) {
            Ok(p) => p,
            Err(e) => {
                ctx.violation(idx, &format!("C12:transformed-game-rejected:{}", trn), &format!("{} after {} on {}", e, trn, desc), json!({"game": tree.to_json(), "transformed": ap.tree.to_json()}));
                return;
            }
        };
        let detail = |extra: serde_json::Value| json!({"game": tree.to_json(), "transformed": ap.tree.to_json(), "transformation": trn, "desc": desc, "more": extra});
        let nscale = scale * ap.mul.abs() + ap.add.abs();
        // ---- evaluation level ----
        for k in 0..2 {
            let kind = if k == 0 { 0 } else { rng.below(gen::PROFILE_KINDS) };
            let prof = gen::random_profile(rng, &orig.flat, kind);
            let Some(mapped) = map_profile(&orig, &new, &prof, tr) else {
                ctx.inconclusive("profile-mapping-failed");
                return;
            };
            let (Some((u, r)), Some((u2, r2))) = (info_of(&orig, &prof), info_of(&new, &mapped)) else {
                ctx.inconclusive("from_named-rejected(see C14)");
                return;
            };
            let sgn = if ap.swap { -1.0 } else { 1.0 };
            let want_u = sgn * (ap.mul * u) + ap.add;
            let want_r = if ap.swap { [r[1] * ap.mul, r[0] * ap.mul] } else { [r[0] * ap.mul, r[1] * ap.mul] };
            let tol = if ap.exact { 0.0 } else { 1e-9 * nscale };
            let bad = (u2 - want_u).abs() > tol || (0..2).any(|p| (r2[p] - want_r[p]).abs() > tol.max(if tr == Tr::Swap || tr == Tr::Degenerate { 0.0 } else { 0.0 }));
            if bad {
                // bit-exactness of evaluation is only expected where the arithmetic is identical;
                // the swap negates payoffs, which is exact, but sums run in the same order
                let within = (u2 - want_u).abs() <= 1e-9 * nscale && (0..2).all(|p| (r2[p] - want_r[p]).abs() <= 1e-9 * nscale);
                if within {
                    ctx.count(&format!("evaluation-equal-within-rounding-not-bitwise:{}", trn), 1);
                } else {
                    ctx.violation(
                        idx,
                        &format!("C12:evaluation-changed:{}", trn),
                        &format!("{}: utility {} regrets {:?} became utility {} regrets {:?}, expected utility {} regrets {:?} (on {})", trn, u, r, u2, r2, want_u, want_r, desc),
                        detail(json!({"profile": prof})),
                    );
                    return;
                }
            }
            ctx.ok(mix(mix(tree.structural_hash() ^ crate::props::c01::profile_hash(&prof)) ^ crate::rng::hash_str(&trn)), orig.flat.num_decision_infosets() > 0);
            ctx.count(&format!("evaluations:{}", trn), 1);
        }
        // ---- solver level (deterministic method, one thread) ----
        let scale_type = matches!(tr, Tr::PayoffPow2 | Tr::PayoffAny | Tr::PayoffShift);
        let params = if scale_type {
            // a finite softmax weight is a temperature and not scale free by documentation
            *rng.pick(&[ParamSpec::None, ParamSpec::Vanilla, ParamSpec::Lcfr, ParamSpec::CfrPlus, ParamSpec::Dcfr, ParamSpec::DcfrPrune, ParamSpec::Custom(2.0, 0.5, 1.0, 0.0), ParamSpec::Custom(1.0, -1.0, 0.0, f64::NEG_INFINITY)])
        } else if rng.chance(0.5) {
            ParamSpec::random(rng)
        } else {
            ParamSpec::random_custom(rng)
        };
        let iters = *rng.pick(&[1u64, 2, 3, 5, 10, 30]);
        let cfg = Cfg { method: SolveMethod::Full, iters, max_reg: 0.0, threads: 1, params };
        ctx.mark(idx, &cfg.describe());
        let hook = || Some(Config { flags: solve::ALL_LOGS & !cfr::verif::LOG_VISIT, sampling: Sampling::Production, jitter_seed: 0 });
        let (a, b) = match (solve::run(&orig, &cfg, hook()), solve::run(&new, &cfg, hook())) {
            (Outcome::Ok(a), Outcome::Ok(b)) => (a, b),
            (Outcome::Panic(m), _) | (_, Outcome::Panic(m)) => {
                ctx.violation(idx, "C12:panic", &format!("{} panicked: {}", cfg.describe(), m), detail(json!({})));
                return;
            }
            _ => {
                ctx.inconclusive("solve-error");
                return;
            }
        };
        let Some(mapped) = map_profile(&orig, &new, &a.profile, tr) else {
            ctx.inconclusive("profile-mapping-failed");
            return;
        };
        let want_bounds = if ap.swap { [a.bounds[1] * ap.mul, a.bounds[0] * ap.mul] } else { [a.bounds[0] * ap.mul, a.bounds[1] * ap.mul] };
        let mut worst = 0.0f64;
        for p in 0..2 {
            for (x, y) in mapped[p].iter().zip(b.profile[p].iter()) {
                for (u, v) in x.iter().zip(y.iter()) {
                    worst = worst.max((u - v).abs());
                }
            }
        }
        let bound_diff = (0..2).map(|p| (b.bounds[p] - want_bounds[p]).abs()).fold(0.0, f64::max);
        let exact_ok = worst == 0.0 && bound_diff == 0.0;
        let close_ok = worst <= 1e-9 && bound_diff <= 1e-9 * nscale.max(want_bounds[0].abs()).max(want_bounds[1].abs());
        ctx.max(&format!("max_strategy_difference:{}", trn), worst);
        if ap.exact && exact_ok {
            ctx.count(&format!("solves-bit-identical:{}", trn), 1);
        } else if close_ok {
            ctx.count(&format!("solves-equal-within-rounding:{}", trn), 1);
        } else {
            // margin rule
            let sa = solve::step_check(&orig, &cfg, &a, false).ok();
            let sb = solve::step_check(&new, &cfg, &b, false).ok();
            let ma = sa.as_ref().map(|s| s.min_margin).unwrap_or(0.0);
            let mb = sb.as_ref().map(|s| s.min_margin).unwrap_or(0.0);
            // conditioning rule (non-exact transformations only): a returned average strategy is
            // cumulative strategy / its mass; for an infoset its owner (almost) never reaches, the
            // mass is tiny and rounding noise in the reach (1e-16 x payoff conditioning) is
            // amplified by total weight / mass. Both runs were logged, so the amplification is
            // measured per infoset and the tolerance widened by exactly that factor.
            if let (false, true, Some(sa), Some(sb)) = (ap.exact, ma.min(mb) >= 1e-9, sa.as_ref(), sb.as_ref()) {
                let payoff_cond = nscale / (scale * ap.mul.abs()).max(1e-300);
                let cond_of = |prep: &Prepared, st: &crate::spec::Stats| -> Profile {
                    [0, 1].map(|p| {
                        prep.flat.info_actions[p]
                            .iter()
                            .enumerate()
                            .map(|(i, acts)| vec![prep.align.info_rev[p][i].and_then(|di| st.avg_cond[p].get(di).copied()).unwrap_or(1.0); acts.len()])
                            .collect()
                    })
                };
                let ca = map_profile(&orig, &new, &cond_of(&orig, sa), tr);
                let cb = cond_of(&new, sb);
                if let Some(ca) = ca {
                    let mut ok = bound_diff <= 1e-9 * nscale.max(want_bounds[0].abs()).max(want_bounds[1].abs());
                    let mut skipped = 0u64;
                    for p in 0..2 {
                        for (i, (x, y)) in mapped[p].iter().zip(b.profile[p].iter()).enumerate() {
                            let tol = solve::avg_tol(ca[p][i][0].max(cb[p][i][0]), payoff_cond, ma.min(mb));
                            if tol > 1e-3 {
                                skipped += 1;
                            }
                            if x.iter().zip(y.iter()).any(|(u, v)| !((u - v).abs() <= tol)) {
                                ok = false;
                            }
                        }
                    }
                    if ok {
                        ctx.count(&format!("solves-equal-within-conditioning-aware-tolerance:{}", trn), 1);
                        ctx.count("ill-conditioned-infosets-not-compared", skipped);
                        ctx.ok(mix(mix(tree.structural_hash() ^ crate::rng::hash_str(&cfg.describe())) ^ crate::rng::hash_str(&trn)), orig.flat.num_decision_infosets() > 0);
                        return;
                    }
                }
            }
            if !ap.exact && ma.min(mb) < 1e-9 {
                ctx.inconclusive("outputs-differ-but-a-trace-passed-within-1e-9-of-a-regret-matching-discontinuity");
                return;
            }
            if ap.exact && ma.min(mb) < 1e-9 && tr == Tr::Swap {
                // arg-max ties are mirrored differently: documented tie-breaking is unspecified
                ctx.inconclusive("swap-with-exact-regret-tie");
                return;
            }
            if !ap.exact {
                // Stability probe. "Equal within rounding" presupposes that the computation is
                // stable under rounding-sized perturbations. Regret dynamics are not always: on a
                // game with a symmetric, unstable trajectory an asymmetry of 1e-16 grows by an
                // order of magnitude per iteration (observed: 1e-16 -> 1e-12 in six iterations of
                // DCFR, O(1) after thirty). So the original game is solved again with every payoff
                // perturbed by an independent relative 1e-14..1e-13: if that moves the output by at
                // least a thousandth of the difference under judgment, rounding alone explains the
                // difference and the case is inconclusive.
                let mut worst_probe = 0.0f64;
                for salt in 0..2u64 {
                    let mut prng = Rng::new(mix(idx ^ 0x9e37 ^ salt));
                    fn perturb(n: &HNode, r: &mut Rng) -> HNode {
                        match n {
                            HNode::Term(p) => HNode::Term(p * (1.0 + (if r.chance(0.5) { 1.0 } else { -1.0 }) * (1e-14 + 9e-14 * r.unit()))),
                            HNode::Chance { info, outs } => HNode::Chance { info: info.clone(), outs: outs.iter().map(|(w, k)| (*w, perturb(k, r))).collect() },
                            HNode::Player { p, info, acts } => HNode::Player { p: *p, info: info.clone(), acts: acts.iter().map(|(a, k)| (a.clone(), perturb(k, r))).collect() },
                        }
                    }
                    let ptree = perturb(&tree, &mut prng);
                    if let Ok(pprep) = Prepared::new(&ptree) {
                        if let Outcome::Ok(pa) = solve::run(&pprep, &cfg, None) {
                            for p in 0..2 {
                                for (x, y) in pa.profile[p].iter().zip(a.profile[p].iter()) {
                                    for (u, v) in x.iter().zip(y.iter()) {
                                        worst_probe = worst_probe.max((u - v).abs());
                                    }
                                }
                                let bd = (pa.bounds[p] - a.bounds[p]).abs() / scale.max(1e-300);
                                worst_probe = worst_probe.max(bd);
                            }
                        }
                    }
                }
                let judged = worst.max(bound_diff / nscale.max(1e-300));
                if worst_probe >= judged / 1000.0 {
                    ctx.count(&format!("unstable-dynamics(1e-13-payoff-perturbation-moves-the-output-comparably):{}", trn), 1);
                    ctx.inconclusive("outputs-differ-but-the-solve-is-unstable-under-1e-13-relative-payoff-perturbations");
                    return;
                }
            }
            ctx.violation(
                idx,
                &format!("C12:solver-output-changed:{}", trn),
                &format!("{} after {}: strategies differ by {} and bounds {:?} vs expected {:?} (margins {:e}/{:e}) on {}", cfg.describe(), trn, worst, b.bounds, want_bounds, ma, mb, desc),
                detail(json!({"cfg": cfg.describe()})),
            );
            return;
        }
        ctx.ok(mix(mix(tree.structural_hash() ^ crate::rng::hash_str(&cfg.describe())) ^ crate::rng::hash_str(&trn)), orig.flat.num_decision_infosets() > 0);
        ctx.sample(3, || json!({"game": tree.brief(100), "transformation": trn, "transformed": ap.tree.brief(100), "cfg": cfg.describe(), "max_strategy_difference": worst}));
    });
    ctx.finish(crate::report::extra(
        "cases = (game, transformation, profile or solve): G1/G2 games (<=400 nodes) x transformations {chance weights x 2^-1030..2^-1060 per node (deep-subnormal units; on trees with dyadic weights, where this is exact), chance weights x 2^j per node, chance weights x arbitrary c per node, insertion of single-outcome chance and single-action decision nodes at 30% of the edges (removal is the inverse), consistent renaming of infosets/actions/chance infosets, payoffs x 2^j, payoffs x arbitrary c, payoffs + constant (constant in {3,-1.5,0.1,100} x max|payoff|), player swap with negated payoffs}. Evaluation level: get_info of two profiles carried through the name bijection must give utility mul*u+add (negated for the swap) and regrets mul*r (swapped for the swap): bitwise where the arithmetic is identical, else within 1e-9. Solver level: solve(Full, T in {1,2,3,5,10,30}, one thread) on both games; strategies through the bijection and bounds x mul must be bit-identical for the exact transformations and within 1e-9 otherwise, where a difference is inconclusive only if a trace (hook H3) passed within 1e-9 of a regret-matching discontinuity or a stability probe (the original game with every payoff perturbed by an independent relative 1e-14..1e-13) moves the output by at least a thousandth of the difference under judgment. Payoff-scaling transformations use parameter sets with softmax weight in {0,+-inf} (a finite weight is a temperature and not scale-free by documentation). distinct = hash(tree, profile or configuration, transformation); non-trivial = game has a decision infoset.",
        &["name bijection is applied by the harness; infoset alignment by name"],
    ));
}
