//! C15: CLI output is faithful to the game in the input file.
//! Monitor: end-to-end on the shipped binary (no hooks); an independent evaluator (O5 = O1 on the
//! harness' own semantic tree of the file) judges every printed object.
use crate::cli;
use crate::files::{self, EfgOpts, FileGame, Format};
use crate::oracle;
use crate::report::Ctx;
use crate::rng::{mix, Rng};
use crate::tree::Flat;
use serde_json::json;
use std::time::Duration;

pub fn random_file(rng: &mut Rng, size: usize) -> (String, FileGame) {
    let dyadic = rng.chance(0.7);
    let (desc, mut tree) = files::cli_game(rng, size, dyadic);
    if rng.chance(0.15) {
        tree = files::fancy_names(&tree);
    }
    let fg = if rng.chance(0.5) {
        files::write_json(rng, &tree)
    } else {
        let opts = EfgOpts::random(rng, dyadic);
        files::write_efg(rng, &tree, &opts)
    };
    (desc, fg)
}

pub fn option_set(rng: &mut Rng) -> (Vec<String>, String) {
    let method = *rng.pick(&["full", "sampled", "external"]);
    let disc = *rng.pick(&["vanilla", "lcfr", "cfr-plus", "dcfr", "dcfr-prune"]);
    let mut args: Vec<String> = Vec::new();
    if rng.chance(0.08) {
        // unlimited iterations only together with a threshold the deterministic vanilla solver reaches
        args.extend(["-m", "full", "-d", "vanilla", "-t", "0", "-r", "0.05"].iter().map(|s| s.to_string()));
    } else {
        if !(method == "external" && rng.chance(0.3)) {
            args.extend(["-m".to_string(), method.to_string()]);
        }
        if !(disc == "dcfr" && rng.chance(0.3)) {
            args.extend(["-d".to_string(), disc.to_string()]);
        }
        args.extend(["-t".to_string(), rng.pick(&[1u64, 10, 200]).to_string()]);
        if rng.chance(0.3) {
            args.extend(["-r".to_string(), rng.pick(&["0.01", "0.5", "0"]).to_string()]);
        }
    }
    args.extend(["-p".to_string(), rng.pick(&[1usize, 1, 2, 0]).to_string()]);
    if rng.chance(0.5) {
        args.extend(["-c".to_string(), rng.pick(&["0.01", "0.3", "0"]).to_string()]);
    }
    let d = args.join(" ");
    (args, d)
}

/// A Gambit file whose constant is not representable: a 2x2 game with payoffs B + kU for player one
/// and B - kU for player two, U = 2^1010, B = 11000 U (about 1.2e308): every payoff is a finite
/// double and an exact multiple of U, every pair sums to 2B > f64::MAX. The file is constant-sum;
/// what is printed must be a valid profile with each player's own expected payoff and regret.
fn huge_constant_case(ctx: &mut Ctx, idx: u64, rng: &mut Rng, cli_path: &str, scratch: &str) {
    let u = 2f64.powi(1010);
    let b = 11000.0 * u;
    let k: Vec<Vec<f64>> = (0..2).map(|_| (0..2).map(|_| rng.range(0, 6) as f64 - 3.0).collect()).collect();
    let mut text = String::from("EFG 2 R \"huge constant\" { \"A\" \"B\" }\n\np \"\" 1 1 \"row\" { \"r0\" \"r1\" } 0\n");
    let mut o = 1;
    for i in 0..2 {
        text.push_str("p \"\" 2 1 \"col\" { \"c0\" \"c1\" } 0\n");
        for j in 0..2 {
            text.push_str(&format!("t \"\" {} {{ {:?} {:?} }}\n", o, b + k[i][j] * u, b - k[i][j] * u));
            o += 1;
        }
    }
    let path = format!("{}/c15-huge-{}-{}.efg", scratch, ctx.shard, idx % 64);
    std::fs::write(&path, &text).expect("write game file");
    let iters = *rng.pick(&["20", "200"]);
    let args: Vec<String> = ["-m", "full", "-t", iters, "-p", "1", "-i", &path].iter().map(|s| s.to_string()).collect();
    ctx.mark(idx, "huge-constant file");
    ctx.count("files-whose-constant-is-not-representable", 1);
    let r = cli::run(cli_path, &args, None, Duration::from_secs(120));
    let _ = std::fs::remove_file(&path);
    let detail = || json!({"file": text, "args": args, "stderr": r.stderr.chars().take(600).collect::<String>(), "stdout": r.stdout.chars().take(800).collect::<String>()});
    if r.timed_out {
        ctx.inconclusive("cli-watchdog");
        return;
    }
    if r.status != Some(0) {
        ctx.violation(idx, "C15:gambit:valid-file-rejected:huge-constant", &format!("cfr exited with {:?} on a valid constant-sum Gambit file whose payoffs are finite doubles around 1.2e308 (constant beyond f64::MAX): {}", r.status, r.stderr.lines().nth(1).unwrap_or("")), detail());
        return;
    }
    // semantic tree in units of U (player one's payoff net of B)
    let tree = crate::gen::player(0, "row", (0..2).map(|i| (format!("r{}", i), crate::gen::player(1, "col", (0..2).map(|j| (format!("c{}", j), crate::gen::term(k[i][j]))).collect()))).collect());
    let flat = Flat::new(&tree);
    let printed = match cli::parse_output(&r.stdout, &flat) {
        Ok(p) => p,
        Err((sig, msg)) => {
            ctx.violation(idx, &format!("C15:gambit:{}:huge-constant", sig), &msg, detail());
            return;
        }
    };
    let (s1, s2) = (&printed.profile[0][0], &printed.profile[1][0]);
    let e: f64 = (0..2).map(|i| (0..2).map(|j| s1[i] * s2[j] * k[i][j]).sum::<f64>()).sum();
    let br1 = (0..2).map(|i| (0..2).map(|j| s2[j] * k[i][j]).sum::<f64>()).fold(f64::NEG_INFINITY, f64::max) - e;
    let br2 = e - (0..2).map(|j| (0..2).map(|i| s1[i] * k[i][j]).sum::<f64>()).fold(f64::INFINITY, f64::min);
    let want = [("player_one_utility", b + e * u, printed.util[0]), ("player_two_utility", b - e * u, printed.util[1]), ("player_one_regret", br1.max(0.0) * u, printed.regrets[0]), ("player_two_regret", br2.max(0.0) * u, printed.regrets[1]), ("regret", br1.max(br2).max(0.0) * u, printed.regret)];
    for (name, w, g) in want {
        // utilities are compared relative to themselves, regrets relative to the unit U
        let tol = if name.ends_with("utility") { 1e-12 * b } else { 1e-9 * u };
        if !((w - g).abs() <= tol) {
            ctx.violation(idx, &format!("C15:gambit:{}:huge-constant", name), &format!("printed {} = {:e} but the printed strategies give {:e} in the game as written", name, g, w), detail());
            return;
        }
    }
    ctx.ok(mix(crate::rng::hash_str(&text) ^ crate::rng::hash_str(iters)), true);
}

pub fn run(ctx: &mut Ctx) {
    let quick = ctx.quick();
    let n = if quick { 6_000 } else { 300_000 };
    let cli_path = ctx.cli.clone().expect("--cli");
    let scratch = ctx.scratch.clone();
    ctx.run_cases(n, |ctx, idx, rng| {
        if idx % 400 == 3 {
            huge_constant_case(ctx, idx, rng, &cli_path, &scratch);
            return;
        }
        let size = *rng.pick(&[0usize, 1, 1, 2]);
        let (desc, fg) = random_file(rng, size);
        let flat = Flat::new(&fg.tree);
        let scale = flat.max_abs_payoff().max(1e-300) + fg.constant.abs();
        let ext = if rng.chance(0.15) { Some("txt") } else { None };
        let path = cli::write_game_file(&scratch, &format!("c15-{}-{}", ctx.shard, idx % 64), &fg, ext);
        // white space around the document is legal in both formats
        let mut text = fg.text.clone();
        if rng.chance(0.15) {
            text = format!("{}{}{}", *rng.pick(&["\n", "  ", "\r\n\r\n", "\t\n "]), text, *rng.pick(&["", "\n", " \n\n"]));
            std::fs::write(&path, &text).expect("write game file");
            ctx.count("files-with-surrounding-white-space", 1);
        }
        for _ in 0..2 {
            let (mut args, mut adesc) = option_set(rng);
            // one run in eight reads the game from standard input (format detected from the content
            // unless stated)
            let from_stdin = rng.chance(0.125);
            if from_stdin {
                adesc.push_str(" <stdin");
                ctx.count("runs-reading-standard-input", 1);
            } else {
                args.extend(["-i".to_string(), path.clone()]);
            }
            if (ext.is_some() || from_stdin) && rng.chance(0.5) {
                args.extend(["--input-format".to_string(), if fg.format == Format::Json { "json" } else { "gambit" }.to_string()]);
            }
            // one run in five writes to -o; the path may already hold an earlier (longer) result
            let to_file = rng.chance(0.2);
            let opath = format!("{}/c15-{}-{}.out", scratch, ctx.shard, idx % 64);
            if to_file {
                match rng.below(3) {
                    0 => {
                        let _ = std::fs::remove_file(&opath);
                    }
                    1 => {
                        let _ = std::fs::write(&opath, format!("{{\"regret\": 9, \"player_one_strategy\": {{\"old\": {{\"{}\": 1.0}}}}}}\n", "y".repeat(60_000)));
                    }
                    _ => {
                        let _ = std::fs::write(&opath, "{}");
                    }
                }
                args.extend(["-o".to_string(), opath.clone()]);
                ctx.count("runs-with-output-file", 1);
            }
            ctx.mark(idx, &adesc);
            let mut r = cli::run(&cli_path, &args, if from_stdin { Some(&text) } else { None }, Duration::from_secs(120));
            if to_file && r.status == Some(0) {
                // what the user gets is the content of the file
                r.stdout = std::fs::read_to_string(&opath).unwrap_or_default();
            }
            let _ = std::fs::remove_file(&opath);
            let detail = || json!({"file": text, "stdin": from_stdin, "args": args, "desc": desc, "features": fg.features, "stderr": r.stderr.chars().take(600).collect::<String>(), "stdout": r.stdout.chars().take(1500).collect::<String>()});
            if r.timed_out {
                ctx.inconclusive("cli-watchdog");
                continue;
            }
            let fmt = if fg.format == Format::Json { "json" } else { "gambit" };
            if r.status != Some(0) {
                let dup = fg.features.contains(&"duplicate-explicit-infoset-name");
                ctx.violation(
                    idx,
                    &format!("C15:{}:valid-file-rejected{}", fmt, if dup { ":duplicate-name" } else { "" }),
                    &format!("cfr {} exited with {:?} on a valid {} file ({}; features {:?}): {}", adesc, r.status, fmt, desc, fg.features, r.stderr.lines().next().unwrap_or("")),
                    detail(),
                );
                return;
            }
            let printed = match cli::parse_output(&r.stdout, &flat) {
                Ok(p) => p,
                Err((sig, msg)) => {
                    ctx.violation(idx, &format!("C15:{}:{}", fmt, sig), &format!("cfr {}: {} ({}; features {:?})", adesc, msg, desc, fg.features), detail());
                    return;
                }
            };
            // O5: evaluate the printed strategies on the game as written in the file
            let ev = oracle::evaluate(&flat, &printed.profile);
            let want_u = [ev.util + fg.constant / 2.0, fg.constant / 2.0 - ev.util];
            let tol = 1e-9 * scale;
            let mut bad: Option<(String, String)> = None;
            for p in 0..2 {
                if (printed.util[p] - want_u[p]).abs() > tol {
                    bad = Some((
                        format!("utility-player-{}{}", p + 1, if fg.constant != 0.0 { ":constant-sum" } else { "" }),
                        format!("printed utility of player {} is {} but the printed strategies earn that player {} in the game as written (constant sum {})", p + 1, printed.util[p], want_u[p], fg.constant),
                    ));
                    break;
                }
                if (printed.regrets[p] - ev.regret[p]).abs() > tol {
                    bad = Some((format!("regret-player-{}", p + 1), format!("printed regret of player {} is {} but the best deviation against the printed strategies gains {}", p + 1, printed.regrets[p], ev.regret[p])));
                    break;
                }
            }
            if bad.is_none() && !(printed.regret == printed.regrets[0].max(printed.regrets[1])) {
                bad = Some(("regret-not-max".into(), format!("printed total regret {} is not the larger of {:?}", printed.regret, printed.regrets)));
            }
            if bad.is_none() && fg.constant != 0.0 && ((printed.util[0] + printed.util[1]) - fg.constant).abs() > tol {
                bad = Some(("utilities-do-not-add-to-constant".into(), format!("{} + {} != {}", printed.util[0], printed.util[1], fg.constant)));
            }
            if let Some((sig, msg)) = bad {
                ctx.violation(idx, &format!("C15:{}:{}", fmt, sig), &format!("cfr {}: {} ({}; features {:?})", adesc, msg, desc, fg.features), detail());
                return;
            }
            for f in &fg.features {
                ctx.count(&format!("feature:{}", f), 1);
            }
            ctx.ok(mix(crate::rng::hash_str(&fg.text) ^ crate::rng::hash_str(&adesc)), flat.num_decision_infosets() > 0);
            ctx.sample(4, || json!({"file_head": fg.text.chars().take(400).collect::<String>(), "args": adesc, "features": fg.features, "printed_utilities": printed.util, "printed_regret": printed.regret}));
        }
        let _ = std::fs::remove_file(&path);
    });
    ctx.finish(crate::report::extra(
        "cases = (game file, option set) runs of the shipped binary: files generated from G1/G2 trees in the JSON DSL (shuffled key order, optional/null chance infosets, integer and float literals) and in Gambit .efg (constant sums in {0,10,-3.5,1,100}, payoffs split over interior nodes, outcomes shared between terminals, unnamed and partly named infosets, names equal to number strings of the other player's infosets, rational and decimal chance probabilities, chance actions that all carry the same label, unsorted action lists, outcome names, comma/space payoff lists, comment, names with quotes/backslashes/non-ascii) x -m {full,sampled,external,default} x -d {five presets, default} x -t {1,10,200; 0 only with -m full -d vanilla -r 0.05} x -r x -p {1,2,0} x -c {none,0,0.01,0.3} x extension {.json/.efg, .txt with or without --input-format} x route {-i file, standard input with or without --input-format} x {document as written, surrounded by white space} x output {stdout, -o file that is absent / holds a longer earlier result / holds a shorter one}. Required: exit status 0; stdout is one JSON object; both strategies list every infoset of the file for that player with positive probabilities over the file's action names summing to 1; printed utilities equal the O5 evaluation of the printed strategies on the harness' semantic tree of the file for each player's own payoffs (constant-sum files: they add up to the constant); printed regrets equal the best-response gains; regret is the larger one. One case in 400 is a 2x2 Gambit file with payoffs B +- kU (U = 2^1010, B = 11000 U): finite doubles whose constant 2B is not representable; it must be solved, each player's printed utility must be that player's own expected payoff and the regrets the best-response gains. distinct = hash(file text, options); non-trivial = game has a decision infoset.",
        &["the harness' semantic tree is the meaning of the file (Gambit: infosets are identified by number, payoffs accumulate along the path)", "tolerance 1e-9 x (max|payoff| + |constant|)"],
    ));
}
