//! C05: every solve returns a well-formed strategy profile and never panics.
//! Monitor: totality monitor around every Game::solve call over the full configuration grid;
//! dense result vectors (hook H1) judged for well-formedness; worker supervision (death,
//! no-progress deadlock detector) lives in the driver.
use crate::bridge;
use crate::gen::{self, ParamSpec};
use crate::report::{catch, Ctx};
use crate::rng::{mix, Rng};
use crate::solve::{self, Cfg, Outcome, Prepared};
use cfr::verif::{self, Config, Sampling};
use serde_json::json;

pub fn well_formed(out: &solve::Out, iters: u64) -> Result<(), (String, String)> {
    for p in 0..2 {
        for (di, v) in out.dense[p].iter().enumerate() {
            let tot: f64 = v.iter().sum();
            if v.iter().any(|x| !x.is_finite() || *x < 0.0) || !((tot - 1.0).abs() <= 1e-9) {
                return Err(("probabilities-not-a-distribution".into(), format!("player {} infoset {} holds {:?}", p + 1, di, v)));
            }
        }
        let b = out.bounds[p];
        if b.is_nan() || b < 0.0 {
            return Err(("bound-nan-or-negative".into(), format!("bound of player {} is {}", p + 1, b)));
        }
        if iters == 0 && b.is_finite() {
            return Err(("bound-finite-without-iterations".into(), format!("no iteration ran but the bound of player {} is {}", p + 1, b)));
        }
        if iters > 0 && b.is_infinite() {
            return Err(("bound-infinite-after-iterations".into(), format!("{} iteration(s) ran but the bound of player {} is infinite", iters, p + 1)));
        }
    }
    if !(out.total_bound == out.bounds[0].max(out.bounds[1])) {
        return Err(("total-bound-not-max".into(), format!("total bound {} vs per-player {:?}", out.total_bound, out.bounds)));
    }
    Ok(())
}

/// Payoffs of magnitude 1e305..1.5e308 (finite, so the games are accepted): every method must
/// still return a well-formed result or a documented error.
fn huge_payoffs(ctx: &mut Ctx, idx: u64, rng: &mut Rng) {
    let big = *rng.pick(&[1e305, 4e307, 1.5e308]);
    let y = |v: [f64; 2]| gen::player(1, "y0", (0..2).map(|i| (format!("a{}", i), gen::term(v[i] * big))).collect());
    let (desc, tree) = match rng.below(3) {
        0 => ("pennies", gen::player(0, "x0", vec![("a0".into(), y([1.0, -1.0])), ("a1".into(), y([-1.0, 1.0]))])),
        1 => ("chance-pennies", gen::chance(None, vec![(1.0, gen::player(0, "x0", vec![("a0".into(), y([1.0, -1.0])), ("a1".into(), y([-1.0, 1.0]))])), (1.0, gen::term(big))])),
        _ => ("solo", gen::player(0, "x0", vec![("a0".into(), gen::term(big)), ("a1".into(), gen::term(-big)), ("a2".into(), gen::term(big / 2.0))])),
    };
    let Ok(prep) = Prepared::new(&tree) else {
        ctx.inconclusive("huge-payoff-game-rejected");
        return;
    };
    let method = gen::METHODS[rng.below(3)];
    let params = *rng.pick(&[ParamSpec::None, ParamSpec::Vanilla, ParamSpec::CfrPlus, ParamSpec::Dcfr]);
    let cfg = Cfg { method, iters: *rng.pick(&[1u64, 2, 20, 200]), max_reg: 0.0, threads: *rng.pick(&[1usize, 2]), params };
    ctx.mark(idx, &cfg.describe());
    ctx.count("huge-payoff-solves(1e305..1.5e308)", 1);
    let detail = || json!({"game": tree.to_json(), "cfg": cfg.describe(), "desc": desc, "payoff_magnitude": big});
    match solve::run(&prep, &cfg, None) {
        Outcome::Panic(msg) => ctx.violation(idx, "C05:huge-payoffs:panic", &format!("{} panicked on {} with payoffs of magnitude {:e} (finite, accepted): {}", cfg.describe(), desc, big, msg), detail()),
        Outcome::Err(_) => ctx.inconclusive("thread-spawn-error"),
        Outcome::Ok(out) => match well_formed(&out, if cfg.iters == 0 { 0 } else { 1 }) {
            Ok(()) => ctx.ok(mix(tree.structural_hash() ^ crate::rng::hash_str(&cfg.describe())), true),
            Err((sig, msg)) => ctx.violation(idx, "C05:huge-payoffs:malformed-result", &format!("{} on {} with payoffs of magnitude {:e}: {} ({})", cfg.describe(), desc, big, msg, sig), detail()),
        },
    }
}

pub fn pick_threads(rng: &mut Rng) -> usize {
    *rng.pick(&[1usize, 1, 1, 2, 2, 3, 4, 8, 16, 64, 0, usize::MAX / 3 + 1, usize::MAX])
}

pub fn run(ctx: &mut Ctx) {
    let quick = ctx.quick();
    let n = if quick { 30_000 } else { 1_500_000 };
    ctx.run_cases(n, |ctx, idx, rng| {
        // a thin slice with payoffs within a factor of a thousand of f64::MAX: finite, accepted, and
        // large enough for sums of a few regrets to overflow. Judged under signatures of its own.
        if idx % 503 == 11 {
            huge_payoffs(ctx, idx, rng);
            return;
        }
        let size = *rng.pick(&[0usize, 0, 1, 1, 2, 2]);
        // fan shapes are sized against a thread count (see c06.rs): k < 3 x threads root actions
        let mut fan_threads: Option<usize> = None;
        let (desc, tree) = if idx % 4 == 3 && rng.chance(0.25) {
            let t = *rng.pick(&[2usize, 3, 4, 4, 8]);
            fan_threads = Some(t);
            let k = (3 * t - 1 - rng.below(2)).max(3);
            if rng.chance(0.6) {
                (format!("shared_chance_fan_below(k={},threads={})", k, t), gen::shared_chance_fan_below(rng, k, k > 12))
            } else {
                (format!("shared_chance_fan(k={},threads={})", k, t), gen::shared_chance_fan(rng, k))
            }
        } else if idx % 4 == 3 {
            // contention workload for the parallel solvers: wide trees with hidden moves, so that
            // one infoset lies below several frontier nodes handed to different workers
            let mut par = gen::GenParams::random(rng, 2);
            par.hide_rate = *rng.pick(&[0.6, 1.0]);
            par.p_term = 0.0;
            par.max_actions = rng.range(3, 5);
            par.max_depth = rng.range(3, 5);
            par.node_budget = rng.range(150, 600);
            (format!("g1-contention(depth<={},budget={},acts<={})", par.max_depth, par.node_budget, par.max_actions), gen::random_tree(rng, &par))
        } else if rng.chance(0.1) {
            let games = gen::trivial_games();
            let i = rng.below(games.len());
            (format!("trivial{}", i), games[i].clone())
        } else {
            gen::any_game(rng, size)
        };
        let prep = match Prepared::new(&tree) {
            Ok(p) => p,
            Err(e) => {
                ctx.violation(idx, "C05:prepare", &format!("{} ({})", e, desc), json!({"game": tree.to_json()}));
                return;
            }
        };
        let nodes = prep.flat.nodes.len();
        for _ in 0..3 {
            let method = gen::METHODS[rng.below(3)];
            let params = if rng.chance(0.4) { ParamSpec::random(rng) } else { ParamSpec::random_custom(rng) };
            let mut iters = *rng.pick(&[0u64, 1, 1, 2, 3, 4, 7, 10, 30, 100, 1000]);
            if nodes > 300 && iters > 100 {
                iters = 100;
            }
            let mut threads = if idx % 4 == 3 { *rng.pick(&[2usize, 3, 4, 8, 16]) } else { pick_threads(rng) };
            if let Some(t) = fan_threads {
                threads = t;
            } else if idx % 4 == 3 && rng.chance(0.5) {
                let modes = solve::frontier_modes(method);
                let (t, tasks) = tree.best_threads(modes, &[2, 3, 4, 5, 6, 8, 12, 16]);
                if tasks >= 2 {
                    threads = t;
                }
            }
            if threads > 1 && threads <= 64 && iters > 100 {
                iters = 100;
            }
            let max_reg = *rng.pick(&[0.0, 0.0, f64::NAN, -1.0, 1e-300, f64::INFINITY, f64::NEG_INFINITY, 0.1, 1.0, 1e9]);
            let cfg = Cfg { method, iters, max_reg, threads, params };
            let jitter = threads > 1 && threads <= 64 && (idx % 4 == 3 || rng.chance(0.5));
            let hook = if jitter { Some(Config { flags: verif::JITTER, sampling: Sampling::Production, jitter_seed: rng.next() }) } else { None };
            ctx.mark(idx, &cfg.describe());
            ctx.count(&format!("threads:{}", if threads > 64 { "overflowing".to_string() } else { threads.to_string() }), 1);
            let detail = || json!({"game": tree.to_json(), "cfg": cfg.describe(), "desc": desc});
            match solve::run(&prep, &cfg, hook) {
                Outcome::Panic(msg) => {
                    ctx.violation(idx, &format!("C05:panic:{}", gen::method_name(method)), &format!("{} panicked: {} ({})", cfg.describe(), msg, desc), detail());
                    return;
                }
                Outcome::Err(e) => {
                    let name = format!("{:?}", e);
                    if threads == 1 {
                        ctx.violation(idx, "C05:error-with-one-thread", &format!("{} returned {:?}", cfg.describe(), e), detail());
                        return;
                    }
                    if name != "ThreadOverflow" && name != "ThreadSpawnError" {
                        ctx.violation(idx, "C05:undocumented-error", &format!("{} returned {:?}", cfg.describe(), e), detail());
                        return;
                    }
                    if threads > usize::MAX / 3 {
                        if name == "ThreadOverflow" {
                            ctx.count("thread-overflow-errors", 1);
                            ctx.ok(mix(tree.structural_hash() ^ crate::rng::hash_str(&cfg.describe())), true);
                        } else {
                            ctx.violation(idx, "C05:wrong-thread-error", &format!("{} returned {:?}, expected ThreadOverflow", cfg.describe(), e), detail());
                            return;
                        }
                    } else {
                        // a spawn failure with a moderate thread count is a resource matter
                        ctx.inconclusive("thread-spawn-error-with-moderate-thread-count");
                    }
                }
                Outcome::Ok(out) => {
                    if threads > usize::MAX / 3 {
                        ctx.violation(idx, "C05:no-error-for-overflowing-thread-count", &format!("{} returned Ok", cfg.describe()), detail());
                        return;
                    }
                    let iters_ran = if iters == 0 { 0 } else { 1 };
                    if let Err((sig, msg)) = well_formed(&out, iters_ran) {
                        ctx.violation(idx, &format!("C05:{}", sig), &format!("{}: {} ({})", cfg.describe(), msg, desc), detail());
                        return;
                    }
                    // cross-check through the public readers
                    let strat = match catch(|| bridge::inject(&prep.game, &prep.flat, &out.profile)) {
                        Ok(Ok(s)) => s,
                        other => {
                            ctx.violation(idx, "C05:result-not-reimportable", &format!("{}: returned profile rejected by from_named: {:?}", cfg.describe(), other.map(|r| r.err())), detail());
                            return;
                        }
                    };
                    let info = catch(|| strat.get_info());
                    match info {
                        Ok(i) if i.regret().is_finite() && i.player_utility(cfr::PlayerNum::One).is_finite() => {}
                        _ => {
                            ctx.violation(idx, "C05:get_info-not-finite", &format!("{}: get_info on the result is not finite / panicked", cfg.describe()), detail());
                            return;
                        }
                    }
                    ctx.count(&format!("method:{}", gen::method_name(method)), 1);
                    ctx.ok(mix(tree.structural_hash() ^ crate::rng::hash_str(&cfg.describe())), prep.flat.num_decision_infosets() > 0);
                    ctx.sample(3, || json!({"game": tree.brief(120), "cfg": cfg.describe(), "bounds": out.bounds.map(crate::tree::fjson)}));
                }
            }
        }
    });
    ctx.finish(crate::report::extra(
        "cases = Game::solve calls: G1/G2 and degenerate games (single terminal, chance only, one player without decisions, all payoffs equal, unreachable infosets) x {Full, Sampled, External} x {None, presets, random (alpha,beta,gamma,w) from {-inf,-1e3,-5,-1,-0.5,0,0.5,1,1.5,2,5,1e3,+inf}} x budgets {0,1,2,3,4,7,10,30,100,1000} x thresholds {0,NaN,-1,1e-300,+-inf,0.1,1,1e9} x threads {0,1,2,3,4,8,16,64,usize::MAX/3+1,usize::MAX}, half of the multi-threaded runs under schedule jitter (hook H5); every fourth case is a contention workload (wide hidden-move trees, 2-16 threads, always jittered) so that shared infosets are hit by several workers at once. Judged: no panic (caught per call; worker death and a 25 s no-CPU-progress deadlock detector in the driver), Err only with threads != 1 and only the two documented kinds (ThreadOverflow exactly for counts above usize::MAX/3), on Ok every infoset of the dense result (hook verif_probs, which unlike as_named does not hide NaN/negative entries) is a distribution, bounds are non-negative, not NaN, infinite iff T = 0, total = max, and the result re-imports and evaluates to finite numbers. distinct = hash(tree, configuration); non-trivial = game has a decision infoset.",
        &["the exact value usize::MAX/3 is not exercised (it makes rayon spawn ~32000 threads for ~110 s on this VM before ThreadSpawnError comes back; probed once during design)",
          "a ThreadSpawnError with <=64 threads is classed inconclusive (resource exhaustion), never a violation",
          "'never hangs' is decided as bounded progress: no CPU progress for 25 s inside a solve = deadlock witness; wall-clock watchdog firing = inconclusive"],
    ));
}
