//! C07: sampled solvers are thread-count invariant once random choices are fixed. See c06.rs.
use crate::report::Ctx;
use cfr::SolveMethod;

pub fn run(ctx: &mut Ctx) {
    crate::props::c06::run_generic(ctx, "C07", &[SolveMethod::Sampled, SolveMethod::External, SolveMethod::External]);
}
