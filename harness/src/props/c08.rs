//! C08: the solvers compute the documented discounted-CFR iterates.
//! Monitor: trace specification (O3 step checker) checked offline over the hook log of every
//! pass: traversal increments, regret matching as a relation, discounts, bounds, termination and
//! the returned average strategy.
use crate::gen::{self, ParamSpec};
use crate::report::Ctx;
use crate::rng::{mix, Rng};
use crate::solve::{self, Cfg, Outcome, Prepared};
use cfr::verif::{Config, Sampling};
use cfr::SolveMethod;
use serde_json::json;
use std::sync::Arc;

pub fn forced_round_robin() -> Sampling {
    Sampling::Forced(Arc::new(|_who, infoset, pass, weights: &[f64]| {
        let n = weights.len();
        let start = (pass as usize + infoset) % n;
        (0..n).map(|k| (start + k) % n).find(|k| weights[*k] > 0.0).unwrap_or(0)
    }))
}

pub fn forced_rarest() -> Sampling {
    Sampling::Forced(Arc::new(|_who, _infoset, _pass, weights: &[f64]| {
        let mut best = 0;
        let mut bw = f64::INFINITY;
        for (k, w) in weights.iter().enumerate() {
            if *w > 0.0 && *w < bw {
                bw = *w;
                best = k;
            }
        }
        best
    }))
}

pub fn pick_sampling(rng: &mut Rng) -> (String, Sampling) {
    match rng.below(6) {
        0 => ("production".into(), Sampling::Production),
        1 => ("forced-round-robin".into(), forced_round_robin()),
        2 => ("forced-rarest".into(), forced_rarest()),
        _ => {
            let s = rng.next();
            (format!("seeded({})", s), Sampling::Seeded(s))
        }
    }
}

pub fn small_game(rng: &mut Rng) -> (String, crate::tree::HNode) {
    if rng.chance(0.2) {
        let w = *rng.pick(&[0usize, 1, 2, 3, 4, 6, 8, 9, 10, 18]);
        let (d, t) = gen::structured(rng, w);
        if t.count_nodes() <= 400 {
            return (d, t);
        }
    }
    let size = rng.below(3);
    let mut par = gen::GenParams::random(rng, size);
    par.node_budget = par.node_budget.min(150);
    let t = gen::random_tree(rng, &par);
    (format!("g1(depth<={},budget={},pay={},w={},hide={})", par.max_depth, par.node_budget, par.payoff_family, par.weight_family, par.hide_rate), t)
}

pub fn run(ctx: &mut Ctx) {
    let quick = ctx.quick();
    let n = if quick { 40_000 } else { 2_000_000 };
    // preset tuples via the public PartialEq (once)
    for spec in ParamSpec::PRESETS {
        let (a, b, g, w) = spec.documented();
        let same = cfr::RegretParams::new(a, b, g, w) == spec.to_params().unwrap();
        if !same {
            ctx.violation(0, &format!("C08:preset-tuple:{}", spec.name()), &format!("preset {} is not RegretParams::new({},{},{},{})", spec.name(), a, b, g, w), json!({}));
        }
    }
    if cfr::RegretParams::default() != cfr::RegretParams::dcfr() {
        ctx.violation(0, "C08:default-not-dcfr", "RegretParams::default() is not the documented dcfr", json!({}));
    }
    ctx.run_cases(n, |ctx, idx, rng| {
        let (desc, tree) = small_game(rng);
        let prep = match Prepared::new(&tree) {
            Ok(p) => p,
            Err(e) => {
                ctx.violation(idx, "C08:prepare", &format!("{} ({})", e, desc), json!({"game": tree.to_json()}));
                return;
            }
        };
        for _ in 0..2 {
            let method = gen::METHODS[rng.below(3)];
            let params = if rng.chance(0.5) { ParamSpec::random(rng) } else { ParamSpec::random_custom(rng) };
            // long logged runs on tiny games: deviations that need many iterations (weights t^gamma
            // for large t, averages dominated by late iterates, probabilities reaching exactly 1.0)
            let long = idx % 20 == 7 && prep.flat.nodes.len() <= 30;
            let iters = if long { *rng.pick(&[200u64, 500, 1000]) } else { *rng.pick(&[0u64, 1, 2, 3, 4, 5, 7, 10, 20, 40, 60]) };
            if long {
                ctx.count("long_logged_runs(T>=200)", 1);
            }
            let threads = if rng.chance(0.3) { *rng.pick(&[2usize, 3, 4]) } else { 1 };
            let max_reg = if rng.chance(0.2) { rng.unit() * prep.flat.payoff_range() } else { 0.0 };
            let cfg = Cfg { method, iters, max_reg, threads, params };
            let (sname, sampling) = if method == SolveMethod::Full { ("none".to_string(), Sampling::Production) } else { pick_sampling(rng) };
            let hook = Config { flags: solve::ALL_LOGS, sampling, jitter_seed: 0 };
            ctx.mark(idx, &cfg.describe());
            let detail = || json!({"game": tree.to_json(), "cfg": cfg.describe(), "sampling": sname, "desc": desc});
            match solve::run(&prep, &cfg, Some(hook)) {
                Outcome::Panic(msg) => {
                    ctx.violation(idx, "C08:panic", &format!("{} panicked: {} ({})", cfg.describe(), msg, desc), detail());
                    return;
                }
                Outcome::Err(e) => {
                    ctx.inconclusive(&format!("solve-error:{:?}", e));
                }
                Outcome::Ok(out) => match solve::step_check(&prep, &cfg, &out, true) {
                    Err((sig, msg)) => {
                        ctx.violation(idx, &format!("C08:{}:{}{}", sig, gen::method_name(method), if threads > 1 { ":multi" } else { "" }), &format!("{} [{} sampling {} on {}]", msg, cfg.describe(), sname, desc), detail());
                        return;
                    }
                    Ok(st) => {
                        // the same deterministic solve repeated on the same Game value must give
                        // the same bits (no state carried over from one solve to the next)
                        if method == SolveMethod::Full && threads == 1 && rng.chance(0.25) {
                            if let Outcome::Ok(again) = solve::run(&prep, &cfg, None) {
                                if again.dense != out.dense || again.bounds.map(f64::to_bits) != out.bounds.map(f64::to_bits) {
                                    ctx.violation(idx, "C08:same-solve-twice-differs", &format!("{} run twice on one Game value gave different results ({})", cfg.describe(), desc), detail());
                                    return;
                                }
                                ctx.count("deterministic_solves_repeated_on_the_same_game_value", 1);
                            }
                        }
                        ctx.count("passes_checked", st.passes);
                        ctx.count("infoset_transitions_checked", st.infoset_transitions);
                        ctx.count("visits_checked", st.visits_checked);
                        ctx.count("draws_checked", st.draws_checked);
                        ctx.count("rm:proportional", st.proportional_steps);
                        ctx.count("rm:uniform", st.uniform_steps);
                        ctx.count("rm:argmax/argmin", st.argmax_steps);
                        ctx.count("rm:softmax", st.softmax_steps);
                        ctx.count(&format!("method:{}{}", gen::method_name(method), if threads > 1 { ":multi" } else { "" }), 1);
                        ctx.count(&format!("sampling:{}", sname.split('(').next().unwrap()), 1);
                        ctx.max("max_relative_increment_error", st.max_rel_err);
                        let h = mix(tree.structural_hash() ^ mix(crate::rng::hash_str(&cfg.describe()) ^ crate::rng::hash_str(&sname)));
                        ctx.ok(h, prep.flat.num_decision_infosets() > 0 && st.passes > 0);
                        ctx.sample(3, || json!({"game": tree.brief(160), "cfg": cfg.describe(), "sampling": sname, "passes": st.passes, "events": out.events.len(), "first_events": out.events.iter().take(4).map(|e| format!("{:?}", e)).collect::<Vec<_>>()}));
                    }
                },
            }
        }
    });
    ctx.finish(crate::report::extra(
        "cases = logged solves: G1/G2 games (<=150-400 nodes) x {Full, Sampled, External} x {None, five presets, random (alpha,beta,gamma,w) with coordinates from {-inf,-1e3,-5,-1,-0.5,0,0.5,1,1.5,2,5,1e3,+inf}} x T in {0..60} (and 200-1000 on games of <= 30 nodes, one case in twenty) x threads {1,2,3,4} x threshold {0, random} x sampling {production, seeded, forced round-robin, forced rarest outcome}. For every pass the O3 step checker recomputes from the library's own previous state (hook H3) and the logged draws (H2) the regret and average-strategy increments the documented algorithm prescribes on the harness tree, then checks regret matching as a relation (proportional / uniform / some arg-max / some arg-min / softmax), the discounts t^a/(t^a+1), t^b/(t^b+1), the n^gamma weighting, the bound formula, termination against the threshold/budget, the returned average strategy, and that the visit log (H4) is exactly the prescribed set of decision nodes once each with at most one draw per infoset per pass. distinct = hash(tree, configuration, sampling); non-trivial = game has a decision infoset and at least one pass ran.",
        &["hooks report the solver's real state (snapshots are taken by the solve loops at quiescent points)",
          "tolerances: increments 1e-9 x (|R| + max|payoff| x nodes of the infoset), strategies 1e-12, softmax 1e-9; finite softmax weights may be applied to the regrets before or after discounting (documentation leaves it open)"],
    ));
}
