pub mod c01;

use crate::report::Ctx;

pub fn run(ctx: &mut Ctx) -> bool {
    match ctx.prop.as_str() {
        "C01" => c01::run(ctx),
        _ => return false,
    }
    true
}
