pub mod c01;
pub mod c11;

use crate::report::Ctx;

pub fn run(ctx: &mut Ctx) -> bool {
    match ctx.prop.as_str() {
        "C01" => c01::run(ctx),
        "C11" => c11::run(ctx),
        _ => return false,
    }
    true
}
