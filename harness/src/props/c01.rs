//! C01: reported utility and regret of any strategy profile are exact.
//! Monitor: reference model (O1: exhaustive + memoised best response) at the API boundary.
use crate::bridge;
use crate::gen;
use crate::oracle;
use crate::report::{catch, rel_close, Ctx};
use crate::rng::{mix, Rng};
use crate::tree::{Flat, HNode, Profile};
use crate::validate;
use cfr::PlayerNum;
use serde_json::json;

pub fn profile_hash(prof: &Profile) -> u64 {
    let mut h = 17;
    for p in prof {
        for i in p {
            for x in i {
                h = mix(h ^ x.to_bits());
            }
        }
    }
    h
}

/// Compare get_info with O1 on one (game, profile) pair. Err((kind, message)) on disagreement;
/// Ok(false) if the oracle could not decide (recorded as inconclusive).
pub fn compare(ctx: &mut Ctx, tree: &HNode, flat: &Flat, game: &bridge::G, prof: &Profile) -> Result<bool, (String, String)> {
    let strat = bridge::inject(game, flat, prof).map_err(|e| ("from_named:rejects-valid-profile".to_string(), format!("from_named rejected a valid profile: {:?}", e)))?;
    compare_strat(ctx, tree, flat, &strat, prof)
}

/// Compare get_info of a live Strategies value with O1 evaluated on `prof`, the profile that
/// value currently holds.
pub fn compare_strat(ctx: &mut Ctx, tree: &HNode, flat: &Flat, strat: &bridge::S, prof: &Profile) -> Result<bool, (String, String)> {
    let scale = flat.effective_scale().max(1e-300);
    let tol = 1e-9;
    let info = catch(|| strat.get_info()).map_err(|msg| ("get_info:panic".to_string(), format!("get_info panicked: {}", msg)))?;
    let want = match oracle::try_evaluate(flat, prof) {
        Some(w) => w,
        None => {
            ctx.sample(50, || json!({"oracle_cyclic": tree.brief(1000)}));
            ctx.inconclusive("oracle-cyclic-infosets");
            return Ok(false);
        }
    };
    // cross-check the oracle with exhaustive enumeration where feasible
    let mut exhaustive = 0;
    for me in 0..2 {
        if let Some(ex) = oracle::best_response_exhaustive(flat, prof, me, 3e5) {
            let memo = oracle::best_response(flat, prof, me).unwrap();
            exhaustive += 1;
            if !rel_close(ex, memo, 1e-9, scale) {
                // the oracle disagrees with itself: harness error, not a verdict on cfr
                ctx.inconclusive("oracle-self-disagreement");
                ctx.sample(50, || json!({"oracle_self_disagreement": {"game": tree.to_json(), "profile": prof, "exhaustive": ex, "memoised": memo, "player": me + 1}}));
                return Ok(false);
            }
        }
    }
    ctx.count("best_responses_cross_checked_exhaustively", exhaustive);
    let got_u1 = info.player_utility(PlayerNum::One);
    let got_u2 = info.player_utility(PlayerNum::Two);
    let got_r = [info.player_regret(PlayerNum::One), info.player_regret(PlayerNum::Two)];
    let got_total = info.regret();
    let mut bad: Vec<(&str, f64, f64)> = Vec::new();
    if !rel_close(got_u1, want.util, tol, scale) {
        bad.push(("utility", got_u1, want.util));
    }
    if !(got_u2 == -got_u1) {
        bad.push(("utility-two-not-negation", got_u2, -got_u1));
    }
    for p in 0..2 {
        if !rel_close(got_r[p], want.regret[p], tol, scale) || got_r[p] < 0.0 {
            bad.push((if p == 0 { "regret-one" } else { "regret-two" }, got_r[p], want.regret[p]));
        }
    }
    if !(got_total == got_r[0].max(got_r[1])) {
        bad.push(("total-not-max", got_total, got_r[0].max(got_r[1])));
    }
    ctx.max("max_abs_deviation_over_scale", ((got_u1 - want.util).abs() / scale).max((got_r[0] - want.regret[0]).abs() / scale).max((got_r[1] - want.regret[1]).abs() / scale));
    if let Some((what, got, exp)) = bad.first() {
        return Err((format!("get_info:{}", what), format!("{}: library {} vs oracle {}; all: {:?}", what, got, exp, bad)));
    }
    Ok(true)
}

/// Judge one (game, profile) pair. Returns false if a violation was recorded.
pub fn judge(ctx: &mut Ctx, idx: u64, desc: &str, tree: &HNode, flat: &Flat, game: &bridge::G, prof: &Profile, kind: &str) -> bool {
    match compare(ctx, tree, flat, game, prof) {
        Err((sig, msg)) => {
            ctx.violation(idx, &format!("C01:{}", sig), &format!("{} ({} profile on {})", msg, kind, desc), json!({"game": tree.to_json(), "profile": prof, "desc": desc}));
            false
        }
        Ok(true) => {
            let nontrivial = flat.num_decision_infosets() >= 1;
            ctx.ok(mix(tree.structural_hash() ^ profile_hash(prof)), nontrivial);
            true
        }
        Ok(false) => true,
    }
}

/// Same comparison on behalf of C11 (accepted trees must evaluate correctly); counts nothing on success
pub fn judge_quiet(ctx: &mut Ctx, idx: u64, desc: &str, tree: &HNode, flat: &Flat, game: &bridge::G, prof: &Profile) -> bool {
    match compare(ctx, tree, flat, game, prof) {
        Err((sig, msg)) => {
            ctx.violation(idx, &format!("C11:accepted-tree-misevaluated:{}", sig), &format!("{} ({})", msg, desc), json!({"game": tree.to_json(), "profile": prof, "desc": desc}));
            false
        }
        Ok(_) => true,
    }
}

/// History monitor: get_info must describe the profile a Strategies value holds *now*, whatever
/// was called on it (or on the value it was cloned from) before: get_info, clone, truncate,
/// get_info again. The current profile is read from the dense vectors (hook H1).
fn history(ctx: &mut Ctx, idx: u64, rng: &mut Rng, desc: &str, tree: &HNode, flat: &Flat, game: &bridge::G, prof: &Profile) -> bool {
    let Ok(strat) = bridge::inject(game, flat, prof) else { return true };
    let bits = |i: &cfr::StrategiesInfo| [i.player_utility(PlayerNum::One).to_bits(), i.player_regret(PlayerNum::One).to_bits(), i.player_regret(PlayerNum::Two).to_bits(), i.regret().to_bits()];
    let first = if rng.chance(0.8) { Some(bits(&strat.get_info())) } else { None };
    let mut cur = strat.clone();
    let mut steps: Vec<String> = vec![if first.is_some() { "get_info".into() } else { "-".into() }, "clone".into()];
    let probs: Vec<f64> = prof.iter().flatten().flatten().cloned().filter(|x| *x > 0.0 && *x < 1.0).collect();
    for _ in 0..rng.range(1, 3) {
        let t = if probs.is_empty() || rng.chance(0.2) { *rng.pick(&[0.0, 0.1, 0.3, 0.5]) } else { probs[rng.below(probs.len())] * *rng.pick(&[0.5, 1.0, 1.0000001]) };
        cur.truncate(t);
        steps.push(format!("truncate({})", t));
        let now = match bridge::dense_profile(game, flat, &cur) {
            Ok(p) => p,
            Err(_) => return true,
        };
        if now.iter().flatten().any(|v| v.iter().any(|x| !x.is_finite() || *x < 0.0) || (v.iter().sum::<f64>() - 1.0).abs() > 1e-9) {
            // truncate left an invalid profile: C18's business
            return true;
        }
        steps.push("get_info".into());
        match compare_strat(ctx, tree, flat, &cur, &now) {
            Err((sig, msg)) => {
                ctx.violation(idx, &format!("C01:history:{}", sig), &format!("after [{}]: {} ({})", steps.join(", "), msg, desc), json!({"game": tree.to_json(), "profile": prof, "current_profile": now, "steps": steps, "desc": desc}));
                return false;
            }
            Ok(_) => {}
        }
        if rng.chance(0.5) {
            let c2 = cur.clone();
            steps.push("clone".into());
            if bits(&c2.get_info()) != bits(&cur.get_info()) {
                ctx.violation(idx, "C01:history:clone-evaluates-differently", &format!("after [{}] a clone reports different numbers than the value it was cloned from ({})", steps.join(", "), desc), json!({"game": tree.to_json(), "profile": prof, "steps": steps}));
                return false;
            }
            cur = c2;
        }
    }
    // the value everything was cloned from is untouched
    if let Some(f) = first {
        if bits(&strat.get_info()) != f {
            ctx.violation(idx, "C01:history:original-changed", &format!("get_info of the original value changed after operations on its clone [{}] ({})", steps.join(", "), desc), json!({"game": tree.to_json(), "profile": prof, "steps": steps}));
            return false;
        }
    }
    ctx.count("histories_checked(get_info/clone/truncate/get_info)", 1);
    ctx.ok(mix(mix(tree.structural_hash() ^ profile_hash(prof)) ^ crate::rng::hash_str(&steps.join(","))), flat.num_decision_infosets() >= 1);
    true
}

fn one_game(ctx: &mut Ctx, idx: u64, rng: &mut Rng, desc: &str, tree: &HNode, nprof: usize) {
    let game = match bridge::build(tree) {
        Ok(g) => g,
        Err(e) => {
            // G1/G2 trees are valid by construction; a rejection belongs to C11 but would starve
            // this check, so report it here as well
            ctx.violation(
                idx,
                "C01:from_root:rejects-valid-game",
                &format!("from_root rejected a valid tree: {:?} ({})", e, desc),
                json!({"game": tree.to_json(), "desc": desc}),
            );
            return;
        }
    };
    let flat = Flat::new(tree);
    ctx.max("max_nodes", flat.nodes.len() as f64);
    ctx.max("max_infosets", flat.num_decision_infosets() as f64);
    for k in 0..nprof {
        let kind = if k < 2 { k } else { rng.below(gen::PROFILE_KINDS) };
        let prof = gen::random_profile(rng, &flat, kind);
        let kname = ["random", "pure", "sparse", "near-uniform", "tiny", "skewed"][kind];
        ctx.count(&format!("profiles:{}", kname), 1);
        if !judge(ctx, idx, desc, tree, &flat, &game, &prof, kname) {
            return;
        }
        if (k == 0 || k == 2) && rng.chance(0.5) && !history(ctx, idx, rng, desc, tree, &flat, &game, &prof) {
            return;
        }
        // the same profile imported from a listing whose infosets are split over several entries
        if k == 3 || (k == 0 && rng.chance(0.3)) {
            let [one, two] = crate::tree::profile_to_named(&flat, &prof);
            let (s1, s2) = (crate::tree::split_named(rng, one), crate::tree::split_named(rng, two));
            if let Ok(strat) = game.from_named([s1, s2]) {
                ctx.count("profiles-imported-from-split-listings", 1);
                match compare_strat(ctx, tree, &flat, &strat, &prof) {
                    Err((sig, msg)) => {
                        ctx.violation(idx, &format!("C01:split-listing:{}", sig), &format!("profile imported from a listing with split infosets: {} ({})", msg, desc), json!({"game": tree.to_json(), "profile": prof, "desc": desc}));
                        return;
                    }
                    Ok(true) => ctx.ok(mix(mix(tree.structural_hash() ^ profile_hash(&prof)) ^ 0x5917), flat.num_decision_infosets() >= 1),
                    Ok(false) => {}
                }
            }
        }
        if k == 0 {
            ctx.sample(3, || json!({"desc": desc, "game": tree.brief(300), "profile_kind": kname, "nodes": flat.nodes.len()}));
        }
    }
}

pub fn run(ctx: &mut Ctx) {
    let n = if ctx.quick() { 400_000 } else { 20_000_000 };
    let quick = ctx.quick();
    const G3: u64 = 1_000_000_000;
    if ctx.only.map_or(true, |o| o < G3) {
    ctx.run_cases(n, |ctx, idx, rng| {
        let size = if quick { rng.below(3) } else { rng.below(4) };
        let (desc, tree) = gen::any_game(rng, size);
        one_game(ctx, idx, rng, &desc, &tree, if quick { 4 } else { 6 });
    });
    }
    // G3: bounded exhaustive micro trees (every valid tree, two profiles)
    if ctx.only.map_or(true, |o| o >= G3) {
        let internal = if quick { 2 } else { 3 };
        let mut e = gen::Enumerator::new();
        let mut count = 0u64;
        let mut valid = 0u64;
        loop {
            let tree = gen::micro_tree(&mut e, internal, 2, &[-1.0, 0.0, 2.0], false);
            if ctx.only.map_or(count % ctx.nshards == ctx.shard, |o| o == G3 + count) {
                let v = validate::validate(&tree);
                if v.valid() {
                    valid += 1;
                    let mut rng = Rng::for_case(ctx.seed, "C01-G3", count);
                    one_game(ctx, G3 + count, &mut rng, "g3-micro", &tree, 2);
                }
            }
            count += 1;
            if !e.advance() {
                break;
            }
        }
        ctx.count("g3_trees_enumerated_total", if ctx.shard == 0 { count } else { 0 });
        ctx.count("g3_valid_trees_judged", valid);
    }
    ctx.finish(crate::report::extra(
        "cases = (game, profile) pairs: G1 random perfect-recall trees (<=2000 nodes, depth<=12, 8 payoff and 5 chance-weight families, hidden information, shared chance infosets, single-action/outcome nodes) and G2 structured games (matrix, Kuhn, Leduc-like, centipede, degenerate chains, wide infosets, rare chance) x profiles {random, pure, sparse-with-zeros, near-uniform, tiny-probabilities, skewed}, plus G3: every valid micro tree with a bounded number of internal nodes (exhaustive). Each is injected with from_named and get_info is compared with O1; for a quarter of the pairs a history follows on the same value (get_info, clone, truncate at a threshold taken from the profile, get_info, clone, ...) and after every step get_info must equal O1 on the profile the value holds now (read from the dense vectors, hook H1), clones must agree with their source, and the original must be unchanged. get_info is compared with O1 (memoised best response, cross-checked against exhaustive enumeration of pure strategies where feasible). distinct = hash(tree structure, profile bits); non-trivial = the game has at least one multi-action infoset.",
        &["O1 (harness evaluator) is correct; it is cross-checked against brute-force enumeration on every game small enough (counter best_responses_cross_checked_exhaustively)",
          "tolerance 1e-9 x min(max|payoff|, sum over terminals of chance reach x |payoff|); payoffs finite with magnitude in {0} u [1e-6,1e6], chance weights in [1e-9,1e9]"],
    ));
}
