//! C11: game construction accepts exactly the documented class of games.
//! Monitor: reference model (O2 violated-rule set) at Game::from_root, over valid trees, every
//! documented rule violated somewhere (G4), combinations, and exhaustively enumerated micro trees.
use crate::bridge;
use crate::gen;
use crate::mutate;
use crate::props::c01;
use crate::report::{catch, Ctx};
use crate::rng::Rng;
use crate::tree::{uniform_profile, Flat, HNode};
use crate::validate::{validate, Rule};
use serde_json::json;

fn rules_str(v: &crate::validate::Validation) -> String {
    let mut s: Vec<String> = v.violated.iter().map(|r| format!("{:?}", r)).collect();
    if v.single_outcome_share {
        s.push("(single-outcome-chance-node-shares-infoset)".into());
    }
    if !v.single_multi_mix.is_empty() {
        s.push("(one-action-here-several-there)".into());
    }
    s.join("+")
}

fn outcome_name<T>(r: &Result<Result<T, cfr::GameError>, String>) -> String {
    match r {
        Ok(Ok(_)) => "Ok".into(),
        Ok(Err(e)) => format!("Err({:?})", e),
        Err(m) => format!("panic({})", m),
    }
}

/// returns true if judged without violation
pub fn judge(ctx: &mut Ctx, idx: u64, rng: &mut Rng, origin: &str, tree: &HNode, probe_solve: bool) -> bool {
    let v = validate(tree);
    let res = catch(|| bridge::build(tree));
    let hash = tree.structural_hash();
    let nontrivial = !matches!(tree, HNode::Term(_));
    ctx.count(if v.valid() { "trees_valid_by_oracle" } else { "trees_invalid_by_oracle" }, 1);
    // the same tree presented with a key type whose Hash collides almost always and whose Eq ignores
    // case (names in random case per occurrence), through child iterators without size hints: the
    // verdict and what an accepted game computes must not depend on properties of String and Vec
    if rng.chance(0.25) && bridge::weak_presentable(tree) {
        ctx.count("trees_also_built_with_colliding_hash_keys", 1);
        let weak = catch(|| bridge::build_weak(tree));
        let same = match (&res, &weak) {
            (Ok(Ok(g)), Ok(Ok(w))) => {
                let a = catch(|| g.solve(cfr::SolveMethod::Full, 3, 0.0, 1, None).map(|(s, b)| (s.verif_probs().map(|v| v.to_vec()), b.regret_bound(), s.get_info().player_utility(cfr::PlayerNum::One))));
                let b = catch(|| w.solve(cfr::SolveMethod::Full, 3, 0.0, 1, None).map(|(s, b)| (s.verif_probs().map(|v| v.to_vec()), b.regret_bound(), s.get_info().player_utility(cfr::PlayerNum::One))));
                match (a, b) {
                    (Ok(Ok(x)), Ok(Ok(y))) => {
                        let eq = x.0 == y.0 && x.1.to_bits() == y.1.to_bits() && x.2.to_bits() == y.2.to_bits();
                        if eq {
                            None
                        } else {
                            Some(format!("solve(Full, 3) differs: utility {} vs {}, bound {} vs {}", x.2, y.2, x.1, y.1))
                        }
                    }
                    (Err(_), Err(_)) | (Ok(Err(_)), Ok(Err(_))) => None,
                    (x, y) => Some(format!("solve(Full, 3): {:?} with String keys, {:?} with the exotic presentation", x.map(|r| r.map(|t| t.2)), y.map(|r| r.map(|t| t.2)))),
                }
            }
            (Ok(Err(_)), Ok(Err(_))) | (Err(_), Err(_)) => None,
            (a, b) => Some(format!("from_root: {} with String keys, {} with the exotic presentation", outcome_name(a), outcome_name(b))),
        };
        if let Some(what) = same {
            ctx.violation(
                idx,
                "C11:verdict-or-result-depends-on-key-or-iterator-types",
                &format!("the same tree built through names whose Hash collides and whose Eq ignores case, and child iterators with unhelpful size hints, behaves differently: {} ({})", what, origin),
                json!({"game": tree.to_json(), "origin": origin}),
            );
            return false;
        }
    }
    match res {
        Err(msg) => {
            ctx.violation(idx, "C11:from_root:panic", &format!("from_root panicked: {} ({})", msg, origin), json!({"game": tree.to_json(), "origin": origin}));
            false
        }
        Ok(Ok(game)) => {
            if !v.valid() {
                if v.prob_dontcare && v.violated.len() == 1 && v.violated.contains(&Rule::ProbabilitiesNotEqual) {
                    ctx.dont_care("chance-probabilities-differ-within-rounding-band");
                    return true;
                }
                // what happens on the accepted tree
                let after = catch(|| {
                    let (s, _) = game.solve(cfr::SolveMethod::Full, 3, 0.0, 1, None).unwrap();
                    s.get_info().regret()
                });
                ctx.violation(
                    idx,
                    &format!("C11:accepts-invalid:{}", rules_str(&v)),
                    &format!("from_root accepted a tree violating {} ({}); solve+get_info on it: {:?}", rules_str(&v), origin, after),
                    json!({"game": tree.to_json(), "origin": origin, "recall_witness": v.recall_witness.iter().map(|(p,i)| json!([p+1,i])).collect::<Vec<_>>()}),
                );
                return false;
            }
            ctx.count("accepted_valid", 1);
            // accepted trees must evaluate and solve without panic and agree with O1
            let flat = Flat::new(tree);
            let prof = if rng.chance(0.5) { uniform_profile(&flat) } else { gen::random_profile(rng, &flat, 0) };
            if !c01::judge_quiet(ctx, idx, origin, tree, &flat, &game, &prof) {
                return false;
            }
            if probe_solve {
                let m = gen::METHODS[rng.below(3)];
                let r = catch(|| game.solve(m, 2, 0.0, 1, None).map(|(s, b)| (s.get_info().regret(), b.regret_bound())));
                match r {
                    Ok(Ok((reg, bound))) if reg.is_finite() && !bound.is_nan() => {}
                    other => {
                        ctx.violation(
                            idx,
                            "C11:accepted-tree-does-not-solve",
                            &format!("solve({}) on an accepted tree: {:?} ({})", gen::method_name(m), other, origin),
                            json!({"game": tree.to_json(), "origin": origin}),
                        );
                        return false;
                    }
                }
            }
            ctx.ok(hash, nontrivial);
            true
        }
        Ok(Err(e)) => {
            let kind = Rule::from_error(e);
            if v.valid() {
                if v.prob_dontcare && kind == Some(Rule::ProbabilitiesNotEqual) {
                    ctx.dont_care("chance-probabilities-differ-within-rounding-band");
                    return true;
                }
                ctx.violation(
                    idx,
                    &format!("C11:rejects-valid:{:?}", e),
                    &format!("from_root returned {:?} for a tree that satisfies the contract ({})", e, origin),
                    json!({"game": tree.to_json(), "origin": origin}),
                );
                return false;
            }
            ctx.count(&format!("rejected:{:?}", e), 1);
            match kind {
                Some(k) if v.violated.contains(&k) => {
                    ctx.ok(hash, nontrivial);
                    true
                }
                _ => {
                    if v.prob_dontcare && kind == Some(Rule::ProbabilitiesNotEqual) {
                        ctx.dont_care("chance-probabilities-differ-within-rounding-band");
                        return true;
                    }
                    ctx.violation(
                        idx,
                        &format!("C11:wrong-error:{:?}-for-{}", e, rules_str(&v)),
                        &format!("from_root returned {:?} but the tree only violates {} ({})", e, rules_str(&v), origin),
                        json!({"game": tree.to_json(), "origin": origin}),
                    );
                    false
                }
            }
        }
    }
}

pub fn run(ctx: &mut Ctx) {
    let quick = ctx.quick();
    let n = if quick { 150_000 } else { 6_000_000 };
    const G3: u64 = 1_000_000_000;
    if ctx.only.map_or(true, |o| o < G3) {
        ctx.run_cases(n, |ctx, idx, rng| {
            let size = rng.below(if quick { 3 } else { 4 });
            let (desc, tree) = gen::any_game(rng, size);
            if !judge(ctx, idx, rng, &desc, &tree, idx % 8 == 0) {
                return;
            }
            ctx.sample(2, || json!({"valid": desc, "game": tree.brief(200)}));
            // three mutated variants, the last one a combination of two mutations
            for k in 0..3 {
                let mut t = tree.clone();
                let m1 = rng.below(mutate::MUTATIONS);
                if !mutate::mutate(rng, &mut t, m1) {
                    ctx.count("mutation-not-applicable", 1);
                    continue;
                }
                let mut origin = format!("{} + {}", desc, mutate::mutation_name(m1));
                if k == 2 {
                    let m2 = rng.below(mutate::MUTATIONS);
                    if mutate::mutate(rng, &mut t, m2) {
                        origin = format!("{} + {}", origin, mutate::mutation_name(m2));
                    }
                }
                ctx.count(&format!("mutation:{}", mutate::mutation_name(m1)), 1);
                let ok = judge(ctx, idx, rng, &origin, &t, idx % 8 == 0);
                if ok {
                    ctx.sample(6, || json!({"variant": origin, "game": t.brief(200), "oracle": rules_str(&validate(&t))}));
                }
            }
        });
    }
    if ctx.only.map_or(true, |o| o >= G3) {
        let internal = if quick { 3 } else { 4 };
        let mut e = gen::Enumerator::new();
        let mut count = 0u64;
        let mut mine = 0u64;
        loop {
            let tree = gen::micro_tree(&mut e, internal, 2, &[0.0, 2.0], true);
            if ctx.only.map_or(count % ctx.nshards == ctx.shard, |o| o == G3 + count) {
                let mut rng = Rng::for_case(ctx.seed, "C11-G3", count);
                judge(ctx, G3 + count, &mut rng, "g3-micro", &tree, count % 64 == 0);
                mine += 1;
            }
            count += 1;
            if !e.advance() {
                break;
            }
            if ctx.unknown_violations >= ctx.max_violations {
                break;
            }
        }
        ctx.count("g3_trees_judged", mine);
        ctx.count("g3_trees_enumerated_total", if ctx.shard == 0 { count } else { 0 });
    }
    ctx.finish(crate::report::extra(
        "cases = trees handed to Game::from_root: valid G1/G2 trees; G4 variants (16 mutation operators: each documented rule violated at a random node incl. forgotten own action, absent-mindedness, relabelling across distant branches, one-action-here/several-there, non-finite weights and payoffs, plus rule-preserving rescaling of shared chance weights; every third variant combines two mutations); G3 = every micro tree with a bounded number of internal nodes, <=2 children, infoset labels {a,b}, optional chance infoset, valid and invalid alike (exhaustive for that bound). Oracle O2 computes the set of violated documented rules; required: Ok iff the set is empty, Err(kind) with kind in the set, no panic, and accepted trees evaluate (vs O1) and solve. distinct = structural hash of the tree; non-trivial = not a bare terminal.",
        &["O2 encodes the documented contract (perfect recall = equal sequences of (multi-action infoset, action) of the acting player; single-action nodes exempt)",
          "chance probability comparisons with relative difference in (1e-12,1e-6) are don't-care",
          "tree depth <= 300"],
    ));
}
