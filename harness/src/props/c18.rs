//! C18: truncation keeps a valid profile and only removes small actions.
//! Monitor: reference model of truncate on the dense vectors (hook H1), thresholds placed at,
//! just below and just above every probability of the profile plus extremes and NaN.
use crate::bridge;
use crate::gen;
use crate::props::c13::some_strategies;
use crate::report::{catch, Ctx};
use crate::rng::mix;
use crate::tree::{Flat, Profile};
use serde_json::json;

fn next_up(x: f64) -> f64 {
    if x.is_nan() || x == f64::INFINITY {
        x
    } else if x == 0.0 {
        f64::from_bits(1)
    } else if x > 0.0 {
        f64::from_bits(x.to_bits() + 1)
    } else {
        f64::from_bits(x.to_bits() - 1)
    }
}

fn next_down(x: f64) -> f64 {
    -next_up(-x)
}

fn valid_dist(v: &[f64]) -> bool {
    v.iter().all(|x| x.is_finite() && *x >= 0.0) && (v.iter().sum::<f64>() - 1.0).abs() <= 1e-9
}

/// Err((signature, message)) or Ok(dontcare?)
fn check_one(flat: &Flat, before: &Profile, after: &Profile, again: &Profile, h: f64) -> Result<bool, (String, String)> {
    let mut dontcare = false;
    for p in 0..2 {
        for (i, b) in before[p].iter().enumerate() {
            if b.len() < 2 {
                continue;
            }
            let a = &after[p][i];
            let name = &flat.info_names[p][i];
            if !valid_dist(a) {
                let some_above = b.iter().any(|x| *x > h);
                return Err((
                    if some_above { "invalid-after-truncate".into() } else { "no-action-exceeds-threshold:invalid-infoset".into() },
                    format!("truncate({}) turned infoset {:?} of player {} from {:?} into {:?}, not a distribution", h, name, p + 1, b, a),
                ));
            }
            if b.iter().any(|x| *x > h) {
                let tot: f64 = b.iter().filter(|x| **x > h).sum();
                for (k, (x, y)) in b.iter().zip(a.iter()).enumerate() {
                    if *x > h {
                        let want = x / tot;
                        if (y - want).abs() > 1e-12 * want.max(1e-300) && (y - want).abs() > 1e-300 {
                            return Err(("survivor-not-rescaled".into(), format!("truncate({}) infoset {:?}: action {} was {} and should become {} but is {}", h, name, k, x, want, y)));
                        }
                    } else if *y != 0.0 {
                        return Err(("small-action-survives".into(), format!("truncate({}) infoset {:?}: action {} had {} <= threshold but keeps {}", h, name, k, x, y)));
                    }
                }
            }
            // threshold below every positive probability: nothing changes
            if b.iter().all(|x| *x == 0.0 || *x > h) && b.iter().any(|x| *x > h) {
                for (x, y) in b.iter().zip(a.iter()) {
                    if (x - y).abs() > 1e-12 {
                        return Err(("low-threshold-changed-profile".into(), format!("truncate({}) is below every positive probability of {:?} but changed {:?} into {:?}", h, name, b, a)));
                    }
                }
            }
            // idempotence
            let g = &again[p][i];
            let near = a.iter().any(|y| *y != 0.0 && ((y - h).abs() <= 1e-12 * h.abs().max(1e-300)));
            for (y, z) in a.iter().zip(g.iter()) {
                if (y - z).abs() > 1e-12 {
                    if near {
                        dontcare = true;
                    } else {
                        return Err(("not-idempotent".into(), format!("truncate({}) twice on {:?}: {:?} then {:?} (original {:?})", h, name, a, g, b)));
                    }
                }
            }
        }
    }
    Ok(dontcare)
}

pub fn run(ctx: &mut Ctx) {
    let quick = ctx.quick();
    let n = if quick { 120_000 } else { 5_000_000 };
    ctx.run_cases(n, |ctx, idx, rng| {
        let size = rng.below(if quick { 3 } else { 4 });
        let (desc, tree) = gen::any_game(rng, size);
        let Ok(game) = bridge::build(&tree) else {
            ctx.inconclusive("valid-tree-rejected(see C11)");
            return;
        };
        let flat = Flat::new(&tree);
        let got = catch(|| some_strategies(rng, &game, &flat));
        let Ok(Some((src, strat))) = got else {
            ctx.inconclusive("profile-source-failed(see C05/C14)");
            return;
        };
        let Ok(before) = bridge::dense_profile(&game, &flat, &strat) else {
            ctx.inconclusive("dense-mismatch");
            return;
        };
        if before.iter().any(|pl| pl.iter().any(|i| !valid_dist(i))) {
            ctx.inconclusive("source-profile-invalid(see C05)");
            return;
        }
        // thresholds
        let mut probs: Vec<f64> = before.iter().flat_map(|pl| pl.iter().flat_map(|i| i.iter().copied())).filter(|x| *x > 0.0 && *x < 1.0).collect();
        rng.shuffle(&mut probs);
        probs.truncate(4);
        let mut hs = vec![f64::NEG_INFINITY, -1.0, 0.0, 1e-300, 0.3, 0.5, 1.0, 2.0, f64::INFINITY, f64::NAN, rng.unit(), rng.unit() * 0.2];
        for q in probs {
            hs.push(q);
            hs.push(next_up(q));
            hs.push(next_down(q));
        }
        // chain: several different thresholds applied one after the other to the SAME value; every
        // step is judged against the state the value held just before it
        {
            let mut chain_hs: Vec<f64> = hs.iter().copied().filter(|h| h.is_finite() && *h > 0.0 && *h < 1.0).collect();
            rng.shuffle(&mut chain_hs);
            chain_hs.truncate(3);
            let mut s = strat.clone();
            let mut prev = before.clone();
            let mut steps: Vec<f64> = Vec::new();
            for h in chain_hs {
                steps.push(h);
                let r = catch(|| {
                    s.truncate(h);
                    let after = bridge::dense_profile(&game, &flat, &s);
                    let mut s2 = s.clone();
                    s2.truncate(h);
                    (after, bridge::dense_profile(&game, &flat, &s2))
                });
                match r {
                    Ok((Ok(after), Ok(again))) => match check_one(&flat, &prev, &after, &again, h) {
                        Err((sig, msg)) => {
                            ctx.violation(idx, &format!("C18:chain:{}", sig), &format!("after truncations {:?} on one value: {} [{} on {}]", steps, msg, src, desc), json!({"game": tree.to_json(), "source": src, "thresholds": steps, "before_last_step": prev}));
                            return;
                        }
                        Ok(_) => {
                            prev = after;
                        }
                    },
                    Err(msg) => {
                        ctx.violation(idx, "C18:panic", &format!("chain of truncations {:?} panicked: {} [{} on {}]", steps, msg, src, desc), json!({"game": tree.to_json(), "source": src}));
                        return;
                    }
                    _ => break,
                }
            }
            ctx.count("chains_of_truncations_on_one_value", 1);
        }
        for h in hs {
            let mut s = strat.clone();
            let r = catch(|| {
                s.truncate(h);
                let after = bridge::dense_profile(&game, &flat, &s);
                let info = s.get_info();
                let named_ok = bridge::named_profile(&flat, &s).is_ok();
                let mut s2 = s.clone();
                s2.truncate(h);
                let again = bridge::dense_profile(&game, &flat, &s2);
                (after, again, info.regret(), named_ok)
            });
            let hclass = if h.is_nan() {
                "nan"
            } else if h < 0.0 {
                "negative"
            } else if h == 0.0 {
                "zero"
            } else if h >= 1.0 {
                "at-or-above-one"
            } else {
                "inside-(0,1)"
            };
            ctx.count(&format!("threshold:{}", hclass), 1);
            match r {
                Err(msg) => {
                    ctx.violation(idx, "C18:panic", &format!("truncate({}) / reading the result panicked: {} [{} on {}]", h, msg, src, desc), json!({"game": tree.to_json(), "source": src, "h": crate::tree::fjson(h)}));
                    return;
                }
                Ok((Ok(after), Ok(again), regret, named_ok)) => match check_one(&flat, &before, &after, &again, h) {
                    Err((sig, msg)) => {
                        ctx.violation(idx, &format!("C18:{}", sig), &format!("{} [{} on {}]", msg, src, desc), json!({"game": tree.to_json(), "source": src, "h": crate::tree::fjson(h), "before": before}));
                        return;
                    }
                    Ok(dc) => {
                        if !regret.is_finite() || !named_ok {
                            ctx.violation(idx, "C18:result-unreadable", &format!("after truncate({}) get_info regret = {} / named view well-formed = {} [{} on {}]", h, regret, named_ok, src, desc), json!({"game": tree.to_json(), "source": src, "h": crate::tree::fjson(h)}));
                            return;
                        }
                        if dc {
                            ctx.dont_care("renormalised-probability-lands-on-threshold");
                        } else {
                            let changed = after != before;
                            if changed {
                                ctx.count("truncations_that_changed_the_profile", 1);
                            }
                            let none_above = before.iter().any(|pl| pl.iter().any(|i| i.len() > 1 && !i.iter().any(|x| *x > h)));
                            if none_above {
                                ctx.count("cases_with_infoset_where_no_action_exceeds_threshold", 1);
                            }
                            ctx.ok(mix(mix(tree.structural_hash() ^ crate::props::c01::profile_hash(&before)) ^ h.to_bits()), flat.num_decision_infosets() > 0);
                            ctx.sample(3, || json!({"game": tree.brief(160), "source": src, "h": crate::tree::fjson(h), "before": before, "after": after}));
                        }
                    }
                },
                Ok(_) => ctx.inconclusive("dense-mismatch"),
            }
        }
    });
    ctx.finish(crate::report::extra(
        "cases = (game, profile, threshold) and, per profile, one chain of up to three different thresholds applied in sequence to the same value (each step judged against the state just before it): G1/G2 games x profiles {solver outputs, truncated solver outputs, injected random/pure/sparse/near-uniform/tiny/skewed} x thresholds {-inf,-1,0,1e-300,0.3,0.5,1,2,+inf,NaN, two random, and q, next_up(q), next_down(q) for up to four probabilities q of the profile}. The dense vectors before/after (hook verif_probs) are judged against the set/renormalisation specification: every infoset stays a distribution; where some action exceeds h exactly those survive, rescaled by their sum; a threshold below every positive probability changes nothing; truncating twice equals once (don't-care when a renormalised value lands within 1e-12 of h); get_info and as_named work on the result. distinct = hash(tree, profile, threshold bits); non-trivial = game has a multi-action infoset.",
        &["tolerances: 1e-12 relative on rescaled probabilities, 1e-9 on sums"],
    ));
}
