//! C10: sampling follows the declared distributions and is shared within a chance infoset.
//! Monitors: (1) direct queries of the production categorical sampler with chosen uniform
//! variates (hook H2 multinomial_index) against interval membership; (2) offline checker over the
//! draw/visit/state log of long solves: one draw per infoset per pass, presented weights =
//! declared distribution, every visited node on the tree the draws select (O3 step checker), and
//! Hoeffding/Azuma bounds on outcome frequencies with false-alarm probability 1e-12 per test.
use crate::gen::{self, ParamSpec};
use crate::report::{catch, Ctx};
use crate::rng::{mix, Rng};
use crate::solve::{self, Cfg, Outcome, Prepared};
use cfr::verif::{self, Config, Event, Sampling};
use cfr::SolveMethod;
use serde_json::json;
use std::collections::HashMap;

const TWO53: f64 = 9007199254740992.0;

fn sampler_case(ctx: &mut Ctx, idx: u64, rng: &mut Rng) {
    let n = rng.range(1, 8);
    // dyadic probabilities (multiples of 2^-10) so that cumulative sums are exact
    let mut parts = vec![0u32; n];
    let mut left = 1024u32;
    for i in 0..n {
        let take = if i == n - 1 { left } else if rng.chance(0.2) { 0 } else { rng.below(left as usize + 1) as u32 };
        parts[i] = take;
        left -= take;
    }
    rng.shuffle(&mut parts);
    let probs: Vec<f64> = parts.iter().map(|p| *p as f64 / 1024.0).collect();
    let mut cum = vec![0.0];
    for p in &probs {
        cum.push(cum.last().unwrap() + p);
    }
    let mut variates: Vec<u64> = Vec::new();
    for c in &cum {
        let k = (c * TWO53) as i128;
        for d in [-(1i128 << 43), -(1 << 30), -(1 << 13), -2, -1, 0, 1, 2, 1 << 13, 1 << 30, 1 << 43] {
            let v = k + d;
            if v >= 0 && v < (1i128 << 53) {
                variates.push(v as u64);
            }
        }
    }
    for _ in 0..8 {
        variates.push(rng.next() >> 11);
    }
    for k53 in variates {
        let u = k53 as f64 / TWO53;
        let got = match catch(|| verif::multinomial_index(&probs, k53)) {
            Ok(g) => g,
            Err(msg) => {
                ctx.violation(idx, "C10:sampler:panic", &format!("sampler panicked for probs {:?} variate {}: {}", probs, u, msg), json!({"probs": probs, "k53": k53.to_string()}));
                return;
            }
        };
        // strictly inside interval j?
        let mut inside = None;
        let mut boundary = false;
        for j in 0..n {
            if u == cum[j] || u == cum[j + 1] {
                boundary = true;
            }
            if u > cum[j] && u < cum[j + 1] {
                inside = Some(j);
            }
        }
        if boundary {
            // boundaries are don't-care, but the result must still be a neighbour with positive width or any valid index
            if got >= n {
                ctx.violation(idx, "C10:sampler:index-out-of-range", &format!("sampler returned {} for {} outcomes", got, n), json!({"probs": probs, "k53": k53.to_string()}));
                return;
            }
            ctx.dont_care("variate-on-interval-boundary");
            continue;
        }
        match inside {
            Some(j) if got == j => {
                ctx.ok(mix(mix(k53) ^ probs.iter().fold(9u64, |h, p| mix(h ^ p.to_bits()))), n > 1);
                ctx.count("sampler_queries", 1);
            }
            Some(j) => {
                ctx.violation(
                    idx,
                    "C10:sampler:wrong-interval",
                    &format!("uniform variate {} lies strictly inside cumulative interval {} = ({}, {}) of probabilities {:?} but the sampler returned index {}", u, j, cum[j], cum[j + 1], probs, got),
                    json!({"probs": probs, "k53": k53.to_string()}),
                );
                return;
            }
            None => ctx.inconclusive("variate-in-no-interval"),
        }
    }
    ctx.sample(2, || json!({"sampler_probs": probs, "cumulative": cum}));
}

/// (3) the cached chance sampler itself (alias table): many fresh draws, one per pass, from a
/// seeded generator (hook chance_sampler_counts); the counts must stay within the Hoeffding
/// radius of draws x probability. 200 000 draws resolve a bias of 1 % of an outcome's mass that
/// a 1000-pass solve cannot.
fn chance_sampler_case(ctx: &mut Ctx, idx: u64, rng: &mut Rng, quick: bool) {
    let n = rng.range(2, 8);
    // per vector: small integers (deals like 1:2:3, where some weight equals total/n), dyadic
    // fractions, or a free mix incl. outcomes of probability ~1e-3
    let family = rng.below(3);
    let weights: Vec<f64> = (0..n)
        .map(|_| match (family, rng.below(4)) {
            (0, _) => rng.range(1, 6) as f64,
            (1, _) => (2.0f64).powi(-(rng.range(0, 4) as i32)),
            (_, 0) => 1.0,
            (_, 1) => 0.05 + rng.unit(),
            (_, 2) => 10f64.powf(-3.0 * rng.unit()),
            _ => rng.range(1, 6) as f64,
        })
        .collect();
    let mut weights = weights;
    // now and then some outcomes have probability exactly zero (a declared weight so small that
    // it vanishes when normalised): they must never be drawn and must not shift the others
    if rng.chance(0.3) {
        for w in weights.iter_mut() {
            if rng.chance(0.3) {
                *w = 0.0;
            }
        }
        if weights.iter().all(|w| *w == 0.0) {
            weights[0] = 1.0;
        }
    }
    let tot: f64 = weights.iter().sum();
    let probs: Vec<f64> = weights.iter().map(|w| w / tot).collect();
    let draws: u64 = if quick { 200_000 } else { 2_000_000 };
    let seed = rng.next();
    verif::start(Config { flags: 0, sampling: Sampling::Seeded(seed), jitter_seed: 0 });
    let got = catch(|| verif::chance_sampler_counts(&probs, draws));
    let _ = verif::finish();
    let counts = match got {
        Ok(c) => c,
        Err(msg) => {
            ctx.violation(idx, "C10:chance-sampler:panic", &format!("chance sampler panicked for probabilities {:?}: {}", probs, msg), json!({"probs": probs}));
            return;
        }
    };
    let r = radius(draws as f64);
    if counts.len() != n || counts.iter().sum::<u64>() != draws {
        ctx.violation(idx, "C10:chance-sampler:counts-malformed", &format!("{} draws over {} outcomes gave counts {:?}", draws, n, counts), json!({"probs": probs}));
        return;
    }
    for (j, c) in counts.iter().enumerate() {
        let dev = (*c as f64 - draws as f64 * probs[j]).abs();
        ctx.max("max_chance_sampler_deviation_over_radius", dev / r);
        if probs[j] == 0.0 && *c > 0 {
            ctx.violation(idx, "C10:chance-sampler:zero-probability-outcome-drawn", &format!("outcome {} of probabilities {:?} has probability 0 but was drawn {} times in {} draws", j, probs, c, draws), json!({"probs": probs, "counts": counts, "seed": seed.to_string()}));
            return;
        }
        if dev > r {
            ctx.violation(
                idx,
                "C10:chance-sampler:frequency",
                &format!("outcome {} of probabilities {:?} was drawn {} times in {} fresh draws (expected {:.1}, deviation {:.1} > Hoeffding radius {:.1})", j, probs, c, draws, draws as f64 * probs[j], dev, r),
                json!({"probs": probs, "counts": counts, "seed": seed.to_string()}),
            );
            return;
        }
    }
    ctx.count("chance_sampler_frequency_cases", 1);
    ctx.count("chance_sampler_draws", draws);
    ctx.ok(mix(seed ^ probs.iter().fold(5u64, |h, p| mix(h ^ p.to_bits()))), true);
    ctx.sample(1, || json!({"chance_sampler_probs": probs, "counts": counts, "draws": draws}));
}

fn radius(n: f64) -> f64 {
    (n * (2.0f64 / 1e-12).ln() / 2.0).sqrt()
}

fn solve_case(ctx: &mut Ctx, idx: u64, rng: &mut Rng, quick: bool) {
    // games with chance infosets and hidden information, small enough for long logged runs
    let many_chance = rng.chance(0.25);
    let (desc, tree) = match if many_chance { 99 } else { rng.below(6) } {
        99 => {
            // many chance infosets (mostly one per node) for the parallel solvers: how cached
            // samples are reset between passes depends on their number and on the thread count
            let mut par = gen::GenParams::random(rng, 2);
            par.p_chance = 0.4;
            par.p_shared_chance = *rng.pick(&[0.0, 0.0, 0.5]);
            par.p_term = *rng.pick(&[0.0, 0.05]);
            par.max_depth = rng.range(4, 8);
            par.node_budget = rng.range(80, 300);
            (format!("g1-many-chance(depth<={},budget={},w={})", par.max_depth, par.node_budget, par.weight_family), gen::random_tree(rng, &par))
        }
        0 => ("kuhn3".to_string(), gen::kuhn(3, true)),
        1 => ("kuhn4_two_chance".to_string(), gen::kuhn(4, false)),
        2 => ("mini_leduc".to_string(), gen::mini_leduc()),
        3 => ("rare_chance".to_string(), gen::rare_chance(1e-3)),
        _ => {
            let mut par = gen::GenParams::random(rng, 1);
            par.p_chance = *rng.pick(&[0.25, 0.4]);
            par.p_shared_chance = *rng.pick(&[0.5, 1.0]);
            par.node_budget = par.node_budget.min(80);
            (format!("g1(depth<={},budget={},w={})", par.max_depth, par.node_budget, par.weight_family), gen::random_tree(rng, &par))
        }
    };
    let prep = match Prepared::new(&tree) {
        Ok(p) => p,
        Err(e) => {
            ctx.violation(idx, "C10:prepare", &format!("{} ({})", e, desc), json!({"game": tree.to_json()}));
            return;
        }
    };
    let method = gen::METHODS[rng.below(3)];
    let params = *rng.pick(&[ParamSpec::None, ParamSpec::Vanilla, ParamSpec::CfrPlus, ParamSpec::Lcfr]);
    let iters = if many_chance { *rng.pick(&[30u64, 100, 300]) } else if quick { *rng.pick(&[300u64, 1000]) } else { *rng.pick(&[1000u64, 2000, 4000]) };
    let threads = if many_chance { *rng.pick(&[2usize, 2, 3, 4, 8]) } else { *rng.pick(&[1usize, 1, 1, 3]) };
    if many_chance {
        ctx.count("runs_on_games_with_many_chance_infosets", 1);
        ctx.max("max_chance_infosets_in_one_game", prep.dump.chance_probs.len() as f64);
    }
    let production = rng.chance(0.5);
    let seed = rng.next();
    let cfg = Cfg { method, iters, max_reg: 0.0, threads, params };
    ctx.mark(idx, &cfg.describe());
    let sampling = if production { Sampling::Production } else { Sampling::Seeded(seed) };
    let sname = if production { "production".to_string() } else { format!("seeded({})", seed) };
    let detail = || json!({"game": tree.to_json(), "cfg": cfg.describe(), "sampling": sname, "desc": desc});
    let out = match solve::run(&prep, &cfg, Some(Config { flags: solve::ALL_LOGS, sampling, jitter_seed: 0 })) {
        Outcome::Ok(o) => o,
        Outcome::Err(_) => {
            ctx.inconclusive("thread-spawn-error");
            return;
        }
        Outcome::Panic(msg) => {
            ctx.violation(idx, "C10:panic", &format!("{} panicked: {}", cfg.describe(), msg), detail());
            return;
        }
    };
    // per-pass rules (a)-(d): the O3 step checker with draw and visit monitors
    let stats = match solve::step_check(&prep, &cfg, &out, true) {
        Ok(s) => s,
        Err((sig, msg)) => {
            ctx.violation(idx, &format!("C10:{}:{}", sig, gen::method_name(method)), &format!("{} [{} sampling {} on {}]", msg, cfg.describe(), sname, desc), detail());
            return;
        }
    };
    ctx.count("draw_events_checked_per_pass", stats.draws_checked);
    ctx.count("visit_events_checked", stats.visits_checked);
    if method == SolveMethod::Full {
        ctx.ok(mix(tree.structural_hash() ^ crate::rng::hash_str(&cfg.describe())), true);
        ctx.count("unsampled_runs_with_zero_draws", 1);
        return;
    }
    // (e) frequencies. chance: counts vs n*p; players: martingale sum (1[result=j] - p_j(pass))
    let mut chance_counts: HashMap<usize, (Vec<f64>, Vec<u64>, u64)> = HashMap::new();
    let mut mart: HashMap<(u8, usize), (Vec<f64>, u64)> = HashMap::new();
    for e in &out.events {
        if let Event::Draw { who, infoset, weights, result, .. } = e {
            if *who == 2 {
                let ent = chance_counts.entry(*infoset).or_insert_with(|| (weights.clone(), vec![0; weights.len()], 0));
                if *result < ent.1.len() {
                    ent.1[*result] += 1;
                }
                ent.2 += 1;
            } else {
                let ent = mart.entry((*who, *infoset)).or_insert_with(|| (vec![0.0; weights.len()], 0));
                for (j, w) in weights.iter().enumerate() {
                    ent.0[j] += if j == *result { 1.0 } else { 0.0 } - w;
                }
                ent.1 += 1;
            }
        }
    }
    let mut tests = 0u64;
    for (ci, (w, counts, n)) in chance_counts.iter() {
        let r = radius(*n as f64);
        for (j, c) in counts.iter().enumerate() {
            tests += 1;
            let dev = (*c as f64 - *n as f64 * w[j]).abs();
            ctx.max("max_chance_deviation_over_radius", dev / r);
            if dev > r {
                ctx.violation(
                    idx,
                    &format!("C10:frequency:chance:{}", gen::method_name(method)),
                    &format!("chance infoset {} outcome {} was drawn {} times in {} passes, declared probability {} (deviation {} > Hoeffding radius {}) [{} sampling {} on {}]", ci, j, c, n, w[j], dev, r, cfg.describe(), sname, desc),
                    detail(),
                );
                return;
            }
        }
    }
    for ((who, ii), (m, n)) in mart.iter() {
        let r = radius(*n as f64);
        for (j, v) in m.iter().enumerate() {
            tests += 1;
            ctx.max("max_player_martingale_over_radius", v.abs() / r);
            if v.abs() > r {
                ctx.violation(
                    idx,
                    "C10:frequency:player",
                    &format!("player {} infoset {} action {}: sum over {} draws of (drawn - current strategy probability) = {} exceeds the Azuma radius {} [{} sampling {} on {}]", who + 1, ii, j, n, v, r, cfg.describe(), sname, desc),
                    detail(),
                );
                return;
            }
        }
    }
    // (f) independence. Serial: the outcome of a chance infoset in one pass says nothing about
    // the next pass in which it is drawn, so the number of repeats among consecutive draws is
    // n x sum p_j^2 up to the Hoeffding radius (repeats of disjoint pairs are independent
    // Bernoulli variables; the even and the odd pairs are tested separately). Cross: two chance
    // infosets that are BOTH drawn in every pass are drawn independently, so the count of the
    // joint outcome (0,0) is n x p_0 x q_0 up to the radius.
    let mut by_infoset: HashMap<usize, (Vec<f64>, Vec<(u64, usize)>)> = HashMap::new();
    let mut passes_total = 0u64;
    for e in &out.events {
        match e {
            Event::Draw { who, infoset, pass, weights, result, .. } if *who == 2 => {
                by_infoset.entry(*infoset).or_insert_with(|| (weights.clone(), Vec::new())).1.push((*pass, *result));
            }
            Event::Pass { pass, .. } => passes_total = passes_total.max(*pass),
            _ => {}
        }
    }
    let mut always: Vec<usize> = Vec::new();
    for (ci, (w, seq)) in by_infoset.iter_mut() {
        seq.sort();
        if seq.len() as u64 == passes_total && w.len() >= 2 {
            always.push(*ci);
        }
        let p2: f64 = w.iter().map(|p| p * p).sum();
        for parity in 0..2usize {
            let pairs: Vec<bool> = seq.windows(2).enumerate().filter(|(k, _)| k % 2 == parity).map(|(_, x)| x[0].1 == x[1].1).collect();
            let n = pairs.len() as f64;
            if n < 50.0 {
                continue;
            }
            let reps = pairs.iter().filter(|b| **b).count() as f64;
            let r = radius(n);
            tests += 1;
            ctx.max("max_serial_repeat_deviation_over_radius", (reps - n * p2).abs() / r);
            if (reps - n * p2).abs() > r {
                ctx.violation(
                    idx,
                    &format!("C10:independence:serial:{}", gen::method_name(method)),
                    &format!("chance infoset {}: {} of {} consecutive draws repeated the previous outcome, independent draws from {:?} give {:.1} (deviation beyond the Hoeffding radius {:.1}) [{} sampling {} on {}]", ci, reps, n, w, n * p2, r, cfg.describe(), sname, desc),
                    detail(),
                );
                return;
            }
        }
    }
    always.sort();
    for pair in always.windows(2).take(6) {
        let (a, b) = (&by_infoset[&pair[0]], &by_infoset[&pair[1]]);
        let n = a.1.len() as f64;
        if n < 50.0 {
            continue;
        }
        let joint = a.1.iter().zip(b.1.iter()).filter(|(x, y)| x.1 == 0 && y.1 == 0).count() as f64;
        let want = n * a.0[0] * b.0[0];
        let r = radius(n);
        tests += 1;
        ctx.max("max_cross_infoset_joint_deviation_over_radius", (joint - want).abs() / r);
        if (joint - want).abs() > r {
            ctx.violation(
                idx,
                &format!("C10:independence:cross-infoset:{}", gen::method_name(method)),
                &format!("chance infosets {} and {} are both drawn in every pass; outcome (0,0) occurred {} times in {} passes, independent draws give {:.1} (radius {:.1}) [{} sampling {} on {}]", pair[0], pair[1], joint, n, want, r, cfg.describe(), sname, desc),
                detail(),
            );
            return;
        }
        ctx.count("cross_infoset_independence_tests", 1);
    }
    ctx.count("frequency_tests", tests);
    ctx.count(&format!("method:{}", gen::method_name(method)), 1);
    ctx.count(if production { "sampling:production" } else { "sampling:seeded" }, 1);
    ctx.ok(mix(tree.structural_hash() ^ mix(crate::rng::hash_str(&cfg.describe()) ^ seed)), !chance_counts.is_empty() || !mart.is_empty());
    ctx.sample(3, || {
        json!({"game": tree.brief(100), "desc": desc, "cfg": cfg.describe(), "sampling": sname,
               "chance_infosets": chance_counts.iter().take(2).map(|(k, (w, c, n))| json!({"infoset": k, "declared": w, "counts": c, "passes": n})).collect::<Vec<_>>()})
    });
}

pub fn run(ctx: &mut Ctx) {
    let quick = ctx.quick();
    let n = if quick { 30_000 } else { 1_500_000 };
    ctx.run_cases(n, |ctx, idx, rng| {
        if idx % 32 == 5 {
            chance_sampler_case(ctx, idx, rng, quick);
        } else if idx % 8 == 0 {
            solve_case(ctx, idx, rng, quick);
        } else {
            sampler_case(ctx, idx, rng);
        }
    });
    ctx.finish(crate::report::extra(
        "cases = (0) the cached chance sampler (alias table) drawn 2e5 (thorough 2e6) times afresh from a seeded generator (hook chance_sampler_counts) for random weight vectors of length 2-8: every outcome count within the Hoeffding radius of draws x probability (resolves biases of ~1 % of the total mass; thorough 0.3 %). (1) sampler queries: probability vectors of length 1-8 with dyadic entries (exact cumulative sums, zeros included) x uniform variates k*2^-53 placed at every cumulative boundary +-{1,2,2^13,2^30,2^43} units and at random; the production categorical sampler (via hook multinomial_index with an RNG that yields exactly that variate) must return j whenever the variate lies strictly inside the j-th cumulative interval; with dyadic probabilities both sides compute exactly, so only a variate exactly on a boundary is don't-care. (2) logged solves of 300-4000 iterations on Kuhn, Leduc-like, rare-chance and G1 games with shared chance infosets, all methods, threads {1,3}, plus (a quarter of the runs) G1 games of 80-300 nodes with up to dozens of chance infosets under threads {2,3,4,8} for 30-300 iterations, production or seeded randomness: per pass the O3 step checker enforces at most one draw per (site, infoset, pass), draws only where the method allows (none in Full, no player draws in Sampled, only the non-updating player in External), presented weights = declared normalised chance weights resp. the player's current strategy, draws only for infosets the sampled traversal reaches, and visits (H4) exactly on the tree the draws select; over the run the outcome counts per chance infoset stay within the Hoeffding radius sqrt(n ln(2e12)/2) of n*p and the player-site martingales within the Azuma radius; draws are also tested for independence: repeats among consecutive draws of one chance infoset vs n x sum p^2, and the joint outcome (0,0) of two chance infosets that are both drawn in every pass vs n x p x q. distinct = hash(probabilities, variate) resp. hash(tree, configuration, seed); non-trivial = more than one outcome resp. at least one sampling site.",
        &["frequency tests have false-alarm probability 1e-12 each", "seeded mode feeds the production samplers from a SplitMix64 stream keyed per (seed, site, infoset, pass)"],
    ));
}
