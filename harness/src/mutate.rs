//! G4: rule-violating (and some rule-preserving) variants of a valid tree.
use crate::rng::Rng;
use crate::tree::HNode;

pub type Path = Vec<usize>;

pub fn all_paths(root: &HNode) -> Vec<Path> {
    fn rec(n: &HNode, cur: &mut Path, out: &mut Vec<Path>) {
        out.push(cur.clone());
        match n {
            HNode::Term(_) => {}
            HNode::Chance { outs, .. } => {
                for (i, (_, k)) in outs.iter().enumerate() {
                    cur.push(i);
                    rec(k, cur, out);
                    cur.pop();
                }
            }
            HNode::Player { acts, .. } => {
                for (i, (_, k)) in acts.iter().enumerate() {
                    cur.push(i);
                    rec(k, cur, out);
                    cur.pop();
                }
            }
        }
    }
    let mut out = Vec::new();
    rec(root, &mut Vec::new(), &mut out);
    out
}

pub fn get<'a>(root: &'a HNode, path: &[usize]) -> &'a HNode {
    let mut n = root;
    for &i in path {
        n = match n {
            HNode::Chance { outs, .. } => &outs[i].1,
            HNode::Player { acts, .. } => &acts[i].1,
            HNode::Term(_) => unreachable!(),
        };
    }
    n
}

pub fn get_mut<'a>(root: &'a mut HNode, path: &[usize]) -> &'a mut HNode {
    let mut n = root;
    for &i in path {
        n = match n {
            HNode::Chance { outs, .. } => &mut outs[i].1,
            HNode::Player { acts, .. } => &mut acts[i].1,
            HNode::Term(_) => unreachable!(),
        };
    }
    n
}

fn pick_where(rng: &mut Rng, root: &HNode, paths: &[Path], f: impl Fn(&HNode) -> bool) -> Option<Path> {
    let cands: Vec<&Path> = paths.iter().filter(|p| f(get(root, p))).collect();
    if cands.is_empty() {
        None
    } else {
        Some((*rng.pick(&cands)).clone())
    }
}

pub const MUTATIONS: usize = 16;

pub fn mutation_name(kind: usize) -> &'static str {
    [
        "empty-chance",
        "bad-weight",
        "shared-chance-weight-changed",
        "shared-chance-outcome-count-changed",
        "chance-relabelled-to-other-infoset",
        "empty-player",
        "action-renamed-at-one-node",
        "actions-reordered-at-one-node",
        "action-added-or-dropped-at-one-node",
        "duplicate-action",
        "relabel-to-ancestor-infoset",
        "relabel-to-sibling-branch-infoset",
        "relabel-to-random-own-infoset",
        "non-finite-payoff",
        "shared-chance-weights-rescaled(valid)",
        "single-outcome-chance-shares-infoset",
    ][kind % MUTATIONS]
}

/// Apply mutation `kind` somewhere in the tree; returns false (tree unchanged) if it does not
/// apply to this tree
pub fn mutate(rng: &mut Rng, root: &mut HNode, kind: usize) -> bool {
    let mut copy = root.clone();
    match crate::report::catch(|| mutate_inner(rng, &mut copy, kind)) {
        Ok(true) => {
            *root = copy;
            true
        }
        _ => false,
    }
}

fn mutate_inner(rng: &mut Rng, root: &mut HNode, kind: usize) -> bool {
    let paths = all_paths(root);
    let is_chance = |n: &HNode| matches!(n, HNode::Chance { .. });
    let is_player = |n: &HNode| matches!(n, HNode::Player { .. });
    match kind % MUTATIONS {
        0 => {
            let Some(p) = pick_where(rng, root, &paths, is_chance) else { return false };
            if let HNode::Chance { outs, .. } = get_mut(root, &p) {
                outs.clear();
            }
            true
        }
        1 => {
            let Some(p) = pick_where(rng, root, &paths, is_chance) else { return false };
            if let HNode::Chance { outs, .. } = get_mut(root, &p) {
                if outs.is_empty() {
                    return false;
                }
                if rng.chance(0.3) {
                    // every weight of the node negative: the ratios look like a distribution
                    for o in outs.iter_mut() {
                        o.0 = -o.0.abs();
                    }
                } else {
                    let i = rng.below(outs.len());
                    outs[i].0 = *rng.pick(&[0.0, -0.0, -1.0, f64::NAN, f64::INFINITY, f64::NEG_INFINITY, -1e-300]);
                }
            }
            true
        }
        2 | 3 | 14 => {
            // needs a named chance infoset with >= 2 outcomes; make one shared if necessary
            let Some(p) = pick_where(rng, root, &paths, |n| matches!(n, HNode::Chance { outs, .. } if outs.len() >= 2)) else { return false };
            let (label, template) = match get(root, &p) {
                HNode::Chance { info, outs } => (
                    info.clone().unwrap_or_else(|| "shared!".to_string()),
                    outs.iter().map(|(w, _)| *w).collect::<Vec<f64>>(),
                ),
                _ => unreachable!(),
            };
            if let HNode::Chance { info, .. } = get_mut(root, &p) {
                *info = Some(label.clone());
            }
            // find or create a second node of that infoset
            let others: Vec<Path> = paths
                .iter()
                .filter(|q| **q != p)
                .filter(|q| matches!(get(root, q), HNode::Chance { info: Some(l), .. } if *l == label))
                .cloned()
                .collect();
            let q = if others.is_empty() {
                // turn some terminal into a chance node of this infoset
                let Some(q) = pick_where(rng, root, &paths, |n| matches!(n, HNode::Term(_))) else { return false };
                let outs = template.iter().map(|w| (*w, HNode::Term(0.25))).collect();
                *get_mut(root, &q) = HNode::Chance { info: Some(label.clone()), outs };
                q
            } else {
                rng.pick(&others).clone()
            };
            if let HNode::Chance { outs, .. } = get_mut(root, &q) {
                match kind % MUTATIONS {
                    2 => {
                        let i = rng.below(outs.len());
                        outs[i].0 *= *rng.pick(&[1.001, 1.5, 2.0, 0.5, 1.0 + 1e-5]);
                    }
                    3 => {
                        if outs.len() > 2 && rng.chance(0.5) {
                            outs.pop();
                        } else {
                            let w = outs[0].0;
                            outs.push((w, HNode::Term(0.0)));
                        }
                    }
                    _ => {
                        let s = *rng.pick(&[0.3, 3.0, 0.1, 7.0, 1e-3, 1e3, 0.7, 2.0, 1.0 / 3.0]);
                        for o in outs.iter_mut() {
                            o.0 *= s;
                        }
                    }
                }
            }
            true
        }
        4 => {
            let labels: Vec<(Path, String, usize)> = paths
                .iter()
                .filter_map(|q| match get(root, q) {
                    HNode::Chance { info: Some(l), outs } if outs.len() >= 2 => Some((q.clone(), l.clone(), outs.len())),
                    _ => None,
                })
                .collect();
            if labels.len() < 2 {
                return false;
            }
            let (p, _, _) = rng.pick(&labels).clone();
            let (_, l2, _) = rng.pick(&labels).clone();
            if let HNode::Chance { info, .. } = get_mut(root, &p) {
                *info = Some(l2);
            }
            true
        }
        5 => {
            let Some(p) = pick_where(rng, root, &paths, is_player) else { return false };
            if let HNode::Player { acts, .. } = get_mut(root, &p) {
                acts.clear();
            }
            true
        }
        6 | 7 | 8 => {
            // prefer a node whose infoset has another node
            let Some(p) = pick_where(rng, root, &paths, is_player) else { return false };
            let (pl, label, template) = match get(root, &p) {
                HNode::Player { p: pl, info, acts } => (*pl, info.clone(), acts.iter().map(|(a, _)| a.clone()).collect::<Vec<_>>()),
                _ => unreachable!(),
            };
            let others: Vec<Path> = paths
                .iter()
                .filter(|q| **q != p)
                .filter(|q| matches!(get(root, q), HNode::Player { p: pl2, info, .. } if *pl2 == pl && *info == label))
                .cloned()
                .collect();
            let q = if others.is_empty() {
                // create a second node of this infoset at a terminal that is not below p (keeps
                // perfect recall only by luck; the oracle decides)
                let Some(q) = pick_where(rng, root, &paths, |n| matches!(n, HNode::Term(_))) else { return false };
                let acts = template.iter().map(|a| (a.clone(), HNode::Term(0.5))).collect();
                *get_mut(root, &q) = HNode::Player { p: pl, info: label.clone(), acts };
                q
            } else {
                rng.pick(&others).clone()
            };
            if let HNode::Player { acts, .. } = get_mut(root, &q) {
                if acts.is_empty() {
                    return false;
                }
                match kind % MUTATIONS {
                    6 => {
                        let i = rng.below(acts.len());
                        acts[i].0 = format!("{}'", acts[i].0);
                    }
                    7 => {
                        if acts.len() < 2 {
                            return false;
                        }
                        let i = rng.below(acts.len() - 1);
                        acts.swap(i, i + 1);
                    }
                    _ => {
                        if acts.len() >= 2 && rng.chance(0.5) {
                            acts.pop();
                        } else {
                            acts.push(("extra".to_string(), HNode::Term(0.0)));
                        }
                    }
                }
            }
            true
        }
        9 => {
            let Some(p) = pick_where(rng, root, &paths, |n| matches!(n, HNode::Player { acts, .. } if acts.len() >= 2)) else { return false };
            if let HNode::Player { acts, .. } = get_mut(root, &p) {
                let i = rng.below(acts.len());
                let mut j = rng.below(acts.len());
                if i == j {
                    j = (j + 1) % acts.len();
                }
                acts[j].0 = acts[i].0.clone();
            }
            true
        }
        10 => {
            // a descendant of the same player takes its ancestor's infoset (absent-mindedness)
            let cands: Vec<(Path, Path)> = paths
                .iter()
                .filter_map(|q| {
                    let HNode::Player { p: pl, acts, .. } = get(root, q) else { return None };
                    if acts.len() < 2 {
                        return None;
                    }
                    for cut in (0..q.len()).rev() {
                        if let HNode::Player { p: pl2, acts: a2, .. } = get(root, &q[..cut]) {
                            if pl2 == pl && a2.len() >= 2 {
                                return Some((q.clone(), q[..cut].to_vec()));
                            }
                        }
                    }
                    None
                })
                .collect();
            if cands.is_empty() {
                return false;
            }
            let (q, anc) = rng.pick(&cands).clone();
            let (label, names) = match get(root, &anc) {
                HNode::Player { info, acts, .. } => (info.clone(), acts.iter().map(|(a, _)| a.clone()).collect::<Vec<_>>()),
                _ => unreachable!(),
            };
            let same_actions = rng.chance(0.7);
            if let HNode::Player { info, acts, .. } = get_mut(root, &q) {
                *info = label;
                if same_actions {
                    // keep the action lists equal so that only recall is violated
                    while acts.len() > names.len() {
                        acts.pop();
                    }
                    while acts.len() < names.len() {
                        acts.push((String::new(), HNode::Term(0.0)));
                    }
                    for (a, n) in acts.iter_mut().zip(names.iter()) {
                        a.0 = n.clone();
                    }
                }
            }
            true
        }
        11 => {
            // two nodes of one player reached after *different actions* at the same own infoset get
            // the same infoset: the player forgets the action it took
            let cands: Vec<Path> = paths
                .iter()
                .filter(|q| matches!(get(root, q), HNode::Player { acts, .. } if acts.len() >= 2))
                .cloned()
                .collect();
            if cands.is_empty() {
                return false;
            }
            let top = rng.pick(&cands).clone();
            let HNode::Player { p: pl, acts, .. } = get(root, &top) else { unreachable!() };
            let pl = *pl;
            let nact = acts.len();
            // first own multi-action node below each action (no own multi-action node between)
            let mut below: Vec<Vec<Path>> = vec![Vec::new(); nact];
            for q in &paths {
                if q.len() > top.len() && q[..top.len()] == top[..] {
                    if let HNode::Player { p: pl2, acts: a2, .. } = get(root, q) {
                        if *pl2 == pl && a2.len() >= 2 {
                            let clean = (top.len() + 1..q.len()).all(|cut| {
                                !matches!(get(root, &q[..cut]), HNode::Player { p: pl3, acts: a3, .. } if *pl3 == pl && a3.len() >= 2)
                            });
                            if clean {
                                below[q[top.len()]].push(q.clone());
                            }
                        }
                    }
                }
            }
            let with: Vec<usize> = (0..nact).filter(|a| !below[*a].is_empty()).collect();
            let (src, dst) = if with.len() >= 2 {
                let a = with[rng.below(with.len())];
                let mut b = with[rng.below(with.len())];
                if a == b {
                    b = *with.iter().find(|x| **x != a).unwrap();
                }
                (rng.pick(&below[a]).clone(), rng.pick(&below[b]).clone())
            } else if with.len() == 1 {
                // graft a copy under another action's terminal
                let a = with[0];
                let src = rng.pick(&below[a]).clone();
                let terms: Vec<Path> = paths
                    .iter()
                    .filter(|q| q.len() > top.len() && q[..top.len()] == top[..] && q[top.len()] != a)
                    .filter(|q| matches!(get(root, q), HNode::Term(_)))
                    .filter(|q| {
                        (top.len() + 1..q.len()).all(|cut| {
                            !matches!(get(root, &q[..cut]), HNode::Player { p: pl3, acts: a3, .. } if *pl3 == pl && a3.len() >= 2)
                        })
                    })
                    .cloned()
                    .collect();
                if terms.is_empty() {
                    return false;
                }
                let dst = rng.pick(&terms).clone();
                let HNode::Player { info, acts, .. } = get(root, &src) else { unreachable!() };
                let copy = HNode::Player {
                    p: pl,
                    info: info.clone(),
                    acts: acts.iter().map(|(a, _)| (a.clone(), HNode::Term(0.0))).collect(),
                };
                *get_mut(root, &dst) = copy;
                return true;
            } else {
                return false;
            };
            let (label, names) = match get(root, &src) {
                HNode::Player { info, acts, .. } => (info.clone(), acts.iter().map(|(a, _)| a.clone()).collect::<Vec<_>>()),
                _ => unreachable!(),
            };
            if let HNode::Player { info, acts, .. } = get_mut(root, &dst) {
                *info = label;
                while acts.len() > names.len() {
                    acts.pop();
                }
                while acts.len() < names.len() {
                    acts.push((String::new(), HNode::Term(0.0)));
                }
                for (a, n) in acts.iter_mut().zip(names.iter()) {
                    a.0 = n.clone();
                }
            }
            true
        }
        12 => {
            let nodes: Vec<(Path, u8, String)> = paths
                .iter()
                .filter_map(|q| match get(root, q) {
                    HNode::Player { p, info, .. } => Some((q.clone(), *p, info.clone())),
                    _ => None,
                })
                .collect();
            if nodes.len() < 2 {
                return false;
            }
            let (q, pl, _) = rng.pick(&nodes).clone();
            let same: Vec<&(Path, u8, String)> = nodes.iter().filter(|(_, p2, _)| *p2 == pl).collect();
            let (_, _, l2) = (*rng.pick(&same)).clone();
            if let HNode::Player { info, .. } = get_mut(root, &q) {
                *info = l2;
            }
            true
        }
        13 => {
            let Some(p) = pick_where(rng, root, &paths, |n| matches!(n, HNode::Term(_))) else { return false };
            *get_mut(root, &p) = HNode::Term(*rng.pick(&[f64::NAN, f64::INFINITY, f64::NEG_INFINITY]));
            true
        }
        _ => {
            // 15: a single-outcome chance node takes the infoset of a multi-outcome one
            let Some(p) = pick_where(rng, root, &paths, |n| matches!(n, HNode::Chance { outs, .. } if outs.len() >= 2)) else { return false };
            let label = match get_mut(root, &p) {
                HNode::Chance { info, .. } => {
                    let l = info.clone().unwrap_or_else(|| "shared!".to_string());
                    *info = Some(l.clone());
                    l
                }
                _ => unreachable!(),
            };
            let Some(q) = pick_where(rng, root, &paths, |n| matches!(n, HNode::Term(_))) else { return false };
            let old = get(root, &q).clone();
            *get_mut(root, &q) = HNode::Chance { info: Some(label), outs: vec![(1.0, old)] };
            true
        }
    }
}
