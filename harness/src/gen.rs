//! Workload generators: G1 random perfect-recall trees, G2 structured games, G3 bounded
//! exhaustive micro trees, strategy profiles and solver configurations.
use crate::rng::{mix, Rng};
use crate::tree::{Flat, HNode, Profile};
use std::collections::HashMap;

#[derive(Clone, Debug)]
pub struct GenParams {
    pub max_depth: usize,
    pub node_budget: usize,
    pub p_chance: f64,
    pub p_term: f64,
    pub p_shared_chance: f64,
    pub p_single: f64,
    pub hide_rate: f64,
    pub tick_rate: f64,
    pub max_actions: usize,
    pub max_outcomes: usize,
    pub payoff_family: usize,
    pub weight_family: usize,
    pub salt: u64,
}

pub const PAYOFF_FAMILIES: usize = 10;
pub const WEIGHT_FAMILIES: usize = 8;

impl GenParams {
    /// A random parameter set; `size` in 0..=3 scales depth and node budget
    pub fn random(rng: &mut Rng, size: usize) -> GenParams {
        let (depth_hi, budget_hi) = match size {
            0 => (3, 12),
            1 => (5, 60),
            2 => (8, 400),
            _ => (12, 2000),
        };
        GenParams {
            max_depth: rng.range(1, depth_hi),
            node_budget: rng.range(2, budget_hi),
            p_chance: *rng.pick(&[0.0, 0.1, 0.25, 0.4]),
            p_term: *rng.pick(&[0.0, 0.05, 0.15, 0.3]),
            p_shared_chance: *rng.pick(&[0.0, 0.5, 1.0]),
            p_single: *rng.pick(&[0.0, 0.1, 0.3]),
            hide_rate: *rng.pick(&[0.0, 0.3, 0.6, 1.0]),
            tick_rate: *rng.pick(&[0.0, 0.5, 1.0]),
            max_actions: rng.range(2, 5),
            max_outcomes: rng.range(2, 4),
            payoff_family: rng.below(PAYOFF_FAMILIES),
            weight_family: rng.below(WEIGHT_FAMILIES),
            salt: rng.next(),
        }
    }
}

struct Builder<'a> {
    par: &'a GenParams,
    rng: &'a mut Rng,
    nodes: usize,
    /// exact view -> infoset label, per player
    views: [HashMap<Vec<u32>, u32>; 2],
    chance_keys: HashMap<Vec<u32>, u32>,
}

fn unit_of(h: u64) -> f64 {
    (h >> 11) as f64 / (1u64 << 53) as f64
}

impl Builder<'_> {
    fn payoff(&mut self, last_own_action: [u32; 2]) -> f64 {
        let r = &mut *self.rng;
        match self.par.payoff_family {
            0 => (r.range(0, 16) as f64 - 8.0) / 4.0,
            1 => r.unit() * 2.0 - 1.0,
            2 => (r.unit() * 2.0 - 1.0) * 1e6,
            3 => (r.unit() * 2.0 - 1.0) * 1e-6,
            4 => {
                if r.chance(0.8) {
                    0.0
                } else {
                    r.unit() * 2.0 - 1.0
                }
            }
            5 => 0.75,
            6 => r.range(0, 2) as f64 - 1.0,
            // very small / very large units: every documented statement is relative to the payoff
            // range, so an absolute epsilon anywhere in the arithmetic shows up here
            8 => (r.range(0, 16) as f64 - 8.0) * 1e-30,
            9 => (r.unit() * 2.0 - 1.0) * 1e30,
            _ => {
                // dominated actions: a player's action 0 is worth a bonus to them
                let mut v = r.unit() - 0.5;
                if last_own_action[0] == 0 {
                    v += 1.0;
                }
                if last_own_action[1] == 0 {
                    v -= 1.0;
                }
                v
            }
        }
    }

    fn weights(&self, n: usize, key: u64) -> Vec<f64> {
        let mut r = Rng::new(key ^ self.par.salt);
        (0..n)
            .map(|_| match self.par.weight_family {
                0 => 1.0,
                1 => 0.1 + 0.9 * r.unit(),
                2 => 10f64.powf(-9.0 * r.unit()),
                3 => 10f64.powf(9.0 * r.unit()),
                // small dyadic weights written in deep-subnormal units (positive and finite, hence
                // legal; the sums are exact): anything that forms 1/total overflows here
                5 => (2.0f64).powi(r.range(0, 4) as i32) * (2.0f64).powi(-520) * (2.0f64).powi(-530),
                // ordinary weights next to ones so small that their normalised probability is
                // exactly 0.0 (legal: every weight is positive and finite)
                6 => *r.pick(&[5e-324, 1e-320, 1.0, 1.0, 3.0, 0.5]),
                // weights near the top of the range (positive and finite, hence legal): the sum of
                // two of them overflows although every ratio is an ordinary number
                7 => *r.pick(&[1e308, 1e308, 1.5e308, 5e307]),
                _ => (2.0f64).powi(r.range(0, 6) as i32 - 3),
            })
            .collect()
    }

    fn build(
        &mut self,
        depth: usize,
        views: [Vec<u32>; 2],
        chance_hist: Vec<u32>,
        last_own: [u32; 2],
    ) -> HNode {
        self.nodes += 1;
        if depth >= self.par.max_depth
            || self.nodes >= self.par.node_budget
            || (depth > 0 && self.rng.chance(self.par.p_term))
        {
            return HNode::Term(self.payoff(last_own));
        }
        if self.rng.chance(self.par.p_chance) {
            // chance node
            let mut key = vec![depth as u32];
            key.extend_from_slice(&chance_hist);
            let kh = key.iter().fold(self.par.salt, |h, v| mix(h ^ *v as u64));
            let shared = unit_of(mix(kh ^ 1)) < self.par.p_shared_chance;
            let (label, nout, wkey) = if shared {
                let next = self.chance_keys.len() as u32;
                let id = *self.chance_keys.entry(key).or_insert(next);
                let nout = 1 + (mix(kh ^ 2) % self.par.max_outcomes as u64) as usize;
                (Some(format!("c{}", id)), nout, kh)
            } else {
                let nout = self.rng.range(1, self.par.max_outcomes);
                (None, nout, self.rng.next())
            };
            let cid = (kh & 0xffff_ffff) as u32;
            let weights = self.weights(nout, wkey);
            let mut outs = Vec::with_capacity(nout);
            for (o, w) in weights.into_iter().enumerate() {
                let mut nviews = views.clone();
                for (p, view) in nviews.iter_mut().enumerate() {
                    let vis = unit_of(mix(self.par.salt ^ mix(cid as u64 ^ (p as u64 + 11))));
                    if vis >= self.par.hide_rate {
                        view.extend_from_slice(&[2, cid, o as u32]);
                    } else if unit_of(mix(self.par.salt ^ mix(cid as u64 ^ (p as u64 + 23))))
                        < self.par.tick_rate
                    {
                        view.push(3);
                    }
                }
                let mut nhist = chance_hist.clone();
                nhist.push(cid);
                nhist.push(o as u32);
                outs.push((w, self.build(depth + 1, nviews, nhist, last_own)));
            }
            return HNode::Chance { info: label, outs };
        }
        // player node
        let p = self.rng.below(2);
        let next = self.views[p].len() as u32;
        let id = *self.views[p].entry(views[p].clone()).or_insert(next);
        let ih = mix(self.par.salt ^ mix(((p as u64) << 40) | id as u64));
        let nact = if unit_of(mix(ih ^ 5)) < self.par.p_single {
            1
        } else {
            2 + (mix(ih ^ 6) % (self.par.max_actions as u64 - 1)) as usize
        };
        let label = format!("{}{}", if p == 0 { "x" } else { "y" }, id);
        let mut acts = Vec::with_capacity(nact);
        for a in 0..nact {
            let mut nviews = views.clone();
            nviews[p].extend_from_slice(&[1, id, a as u32]);
            let o = 1 - p;
            let tag = ((p as u64) << 40) | id as u64;
            let vis = unit_of(mix(self.par.salt ^ mix(tag ^ 0x77)));
            if vis >= self.par.hide_rate {
                nviews[o].extend_from_slice(&[4, id, a as u32]);
            } else if unit_of(mix(self.par.salt ^ mix(tag ^ 0x99))) < self.par.tick_rate {
                nviews[o].push(5);
            }
            let mut nlast = last_own;
            nlast[p] = a as u32;
            acts.push((
                format!("a{}", a),
                self.build(depth + 1, nviews, chance_hist.clone(), nlast),
            ));
        }
        HNode::Player {
            p: p as u8,
            info: label,
            acts,
        }
    }
}

/// G1: a random tree that satisfies the documented contract by construction
pub fn random_tree(rng: &mut Rng, par: &GenParams) -> HNode {
    let mut b = Builder {
        par,
        rng,
        nodes: 0,
        views: Default::default(),
        chance_keys: HashMap::new(),
    };
    b.build(0, [vec![], vec![]], vec![], [9, 9])
}

// ---------------------------------------------------------------------------------------------
// G2 structured games

pub fn term(x: f64) -> HNode {
    HNode::Term(x)
}

pub fn player(p: u8, info: impl Into<String>, acts: Vec<(String, HNode)>) -> HNode {
    HNode::Player {
        p,
        info: info.into(),
        acts,
    }
}

pub fn chance(info: Option<String>, outs: Vec<(f64, HNode)>) -> HNode {
    HNode::Chance { info, outs }
}

/// n x m matrix game (simultaneous moves: player two does not see player one's action)
pub fn matrix_game(pay: &[Vec<f64>]) -> HNode {
    player(
        0,
        "row",
        pay.iter()
            .enumerate()
            .map(|(i, row)| {
                (
                    format!("r{}", i),
                    player(
                        1,
                        "col",
                        row.iter()
                            .enumerate()
                            .map(|(j, v)| (format!("c{}", j), term(*v)))
                            .collect(),
                    ),
                )
            })
            .collect(),
    )
}

pub fn matching_pennies() -> HNode {
    matrix_game(&[vec![1.0, -1.0], vec![-1.0, 1.0]])
}

pub fn rps(scale: f64) -> HNode {
    matrix_game(&[
        vec![0.0, -scale, scale],
        vec![scale, 0.0, -scale],
        vec![-scale, scale, 0.0],
    ])
}

pub fn random_matrix(rng: &mut Rng, n: usize, m: usize) -> HNode {
    let pay: Vec<Vec<f64>> = (0..n)
        .map(|_| (0..m).map(|_| (rng.range(0, 20) as f64 - 10.0) / 5.0).collect())
        .collect();
    matrix_game(&pay)
}

/// Kuhn poker with `k` cards. `one_chance`: deal both cards in one chance node, otherwise two
/// consecutive chance nodes (the second one with a per-first-card infoset).
pub fn kuhn(k: usize, one_chance: bool) -> HNode {
    fn betting(c1: usize, c2: usize) -> HNode {
        let win = if c1 > c2 { 1.0 } else { -1.0 };
        let i1 = format!("1:{}", c1);
        let i2c = format!("2:{}c", c2);
        let i2b = format!("2:{}b", c2);
        let i1cb = format!("1:{}cb", c1);
        player(
            0,
            i1,
            vec![
                (
                    "check".into(),
                    player(
                        1,
                        i2c,
                        vec![
                            ("check".into(), term(win)),
                            (
                                "bet".into(),
                                player(
                                    0,
                                    i1cb,
                                    vec![("fold".into(), term(-1.0)), ("call".into(), term(2.0 * win))],
                                ),
                            ),
                        ],
                    ),
                ),
                (
                    "bet".into(),
                    player(
                        1,
                        i2b,
                        vec![("fold".into(), term(1.0)), ("call".into(), term(2.0 * win))],
                    ),
                ),
            ],
        )
    }
    if one_chance {
        let mut outs = Vec::new();
        for c1 in 0..k {
            for c2 in 0..k {
                if c1 != c2 {
                    outs.push((1.0, betting(c1, c2)));
                }
            }
        }
        chance(None, outs)
    } else {
        chance(
            Some("deal1".into()),
            (0..k)
                .map(|c1| {
                    (
                        1.0,
                        chance(
                            Some(format!("deal2:{}", c1)),
                            (0..k)
                                .filter(|c2| *c2 != c1)
                                .map(|c2| (1.0, betting(c1, c2)))
                                .collect(),
                        ),
                    )
                })
                .collect(),
        )
    }
}

/// Alternating take/pass chain of the given depth with perfect information
pub fn centipede(depth: usize) -> HNode {
    fn rec(d: usize, depth: usize) -> HNode {
        if d == depth {
            return term(if depth % 2 == 0 { 0.5 } else { -0.5 });
        }
        let p = (d % 2) as u8;
        let take = if p == 0 { 1.0 } else { -1.0 } * (0.1 + d as f64 / depth as f64);
        player(
            p,
            format!("n{}", d),
            vec![("take".into(), term(take)), ("pass".into(), rec(d + 1, depth))],
        )
    }
    rec(0, depth)
}

/// A chain of single-action and single-outcome nodes ending in a small decision
pub fn degenerate_chain(depth: usize) -> HNode {
    let mut node = matching_pennies();
    for d in (0..depth).rev() {
        node = match d % 3 {
            0 => chance(Some(format!("s{}", d)), vec![(2.0, node)]),
            1 => player(0, format!("s{}", d), vec![("only".into(), node)]),
            _ => player(1, format!("s{}", d), vec![("only".into(), node)]),
        };
    }
    node
}

/// One player-one infoset spanning `n` nodes (chance outcome hidden from player one, seen by
/// player two)
pub fn wide_infoset(rng: &mut Rng, n: usize, acts: usize) -> HNode {
    chance(
        None,
        (0..n)
            .map(|o| {
                (
                    1.0 + (o % 3) as f64,
                    player(
                        0,
                        "blind",
                        (0..acts)
                            .map(|a| {
                                (
                                    format!("a{}", a),
                                    player(
                                        1,
                                        format!("see{}", o),
                                        (0..2)
                                            .map(|b| {
                                                (
                                                    format!("b{}", b),
                                                    term((rng.range(0, 8) as f64 - 4.0) / 2.0),
                                                )
                                            })
                                            .collect(),
                                    ),
                                )
                            })
                            .collect(),
                    ),
                )
            })
            .collect(),
    )
}

/// A rare chance outcome (weight `eps`) that decides the game
pub fn rare_chance(eps: f64) -> HNode {
    chance(
        None,
        vec![
            (
                eps,
                player(
                    0,
                    "rare",
                    vec![
                        ("good".into(), term(1.0 / eps.max(1e-6) * 1e-3)),
                        ("bad".into(), term(-1.0)),
                    ],
                ),
            ),
            (1.0, matching_pennies()),
        ],
    )
}

/// A chance outcome far rarer than machine epsilon (one node, or a chain of chance nodes whose
/// probabilities multiply) whose subgame has stakes of the order of 1/probability, so that it
/// carries an ordinary share of the value and of the regret of the whole game: nothing about the
/// game is negligible although a reach probability is.
pub fn rare_high_stakes(rng: &mut Rng) -> HNode {
    // (weight of the rare outcome against 1, number of chained chance nodes): 2^-60, 2^-90 = (2^-30)^3, 2^-120
    let (w, chain) = *rng.pick(&[(2f64.powi(-60), 1usize), (2f64.powi(-30), 3), (2f64.powi(-40), 3), (2f64.powi(-64), 1)]);
    let total: f64 = (0..chain).map(|_| w / (1.0 + w)).product();
    let stakes = (1.0 / total).log2().round().exp2();
    let (n, m) = (rng.range(2, 3), rng.range(2, 3));
    // the rare subgame: a random matrix game at high stakes
    let mut node = player(
        0,
        "rare-row",
        (0..n)
            .map(|i| (format!("r{}", i), player(1, "rare-col", (0..m).map(|j| (format!("c{}", j), term(stakes * (rng.range(0, 16) as f64 - 8.0) / 4.0))).collect())))
            .collect(),
    );
    for d in 0..chain {
        let other = if d + 1 == chain { matching_pennies() } else { term((rng.range(0, 8) as f64 - 4.0) / 4.0) };
        node = chance(None, vec![(w, node), (1.0, other)]);
    }
    node
}

/// Games in which one player has no decision, or nobody has
pub fn trivial_games() -> Vec<HNode> {
    vec![
        term(0.0),
        term(-3.5),
        chance(None, vec![(1.0, term(1.0)), (3.0, term(-1.0))]),
        player(0, "solo", vec![("l".into(), term(1.0)), ("r".into(), term(2.0))]),
        player(1, "solo", vec![("l".into(), term(1.0)), ("r".into(), term(2.0))]),
        player(0, "one", vec![("only".into(), term(1.0))]),
        chance(
            Some("k".into()),
            vec![
                (1.0, player(1, "p", vec![("l".into(), term(0.0)), ("r".into(), term(0.0))])),
                (1.0, player(1, "p", vec![("l".into(), term(0.0)), ("r".into(), term(0.0))])),
            ],
        ),
        // all payoffs equal
        matrix_game(&[vec![2.0, 2.0], vec![2.0, 2.0]]),
        // unreachable infoset under any reasonable play: dominated first move
        player(
            0,
            "top",
            vec![
                ("win".into(), term(5.0)),
                (
                    "lose".into(),
                    player(1, "never", vec![("a".into(), term(-5.0)), ("b".into(), term(-6.0))]),
                ),
            ],
        ),
    ]
}

/// A small two round betting game with a shared public card (Leduc-like)
pub fn mini_leduc() -> HNode {
    fn round2(c1: usize, c2: usize, pot: f64) -> HNode {
        chance(
            Some("board".into()),
            (0..2)
                .map(|b| {
                    let s1 = (c1 == b) as i32 * 10 + c1 as i32;
                    let s2 = (c2 == b) as i32 * 10 + c2 as i32;
                    let win = if s1 > s2 {
                        1.0
                    } else if s1 < s2 {
                        -1.0
                    } else {
                        0.0
                    };
                    (
                        1.0,
                        player(
                            0,
                            format!("1:{}b{}p{}", c1, b, pot),
                            vec![
                                ("check".into(), term(win * pot)),
                                (
                                    "bet".into(),
                                    player(
                                        1,
                                        format!("2:{}b{}p{}bet", c2, b, pot),
                                        vec![
                                            ("fold".into(), term(pot)),
                                            ("call".into(), term(win * (pot + 2.0))),
                                        ],
                                    ),
                                ),
                            ],
                        ),
                    )
                })
                .collect(),
        )
    }
    let mut outs = Vec::new();
    for c1 in 0..3 {
        for c2 in 0..3 {
            if c1 != c2 {
                outs.push((
                    1.0,
                    player(
                        0,
                        format!("1:{}", c1),
                        vec![
                            (
                                "check".into(),
                                player(
                                    1,
                                    format!("2:{}c", c2),
                                    vec![
                                        ("check".into(), round2(c1, c2, 1.0)),
                                        ("bet".into(), term(-1.0)),
                                    ],
                                ),
                            ),
                            (
                                "bet".into(),
                                player(
                                    1,
                                    format!("2:{}b", c2),
                                    vec![("fold".into(), term(1.0)), ("call".into(), round2(c1, c2, 2.0))],
                                ),
                            ),
                        ],
                    ),
                ));
            }
        }
    }
    chance(None, outs)
}

/// A named structured game, chosen by index; returns (name, tree)
/// Chance decides who moves first; the second mover observes nothing, so each player has a
/// single infoset that lies above the other player's infoset on some paths and below it on
/// others (lock-ordering shapes for the parallel solvers).
pub fn who_moves_first(rng: &mut Rng, outcomes: usize, n: usize) -> HNode {
    let pay: Vec<Vec<f64>> = (0..n).map(|_| (0..n).map(|_| (rng.range(0, 16) as f64 - 8.0) / 4.0).collect()).collect();
    let outs = (0..outcomes)
        .map(|k| {
            let sub = if k % 2 == 0 {
                player(0, "A", (0..n).map(|i| (format!("a{}", i), player(1, "B", (0..n).map(|j| (format!("b{}", j), term(pay[i][j] + k as f64 * 0.25))).collect()))).collect())
            } else {
                player(1, "B", (0..n).map(|j| (format!("b{}", j), player(0, "A", (0..n).map(|i| (format!("a{}", i), term(pay[i][j] + k as f64 * 0.25))).collect()))).collect())
            };
            (1.0, sub)
        })
        .collect();
    chance(None, outs)
}

/// Subgames in which player one's hidden move often changes nothing: the decision nodes of player
/// two below two different actions are then distinct nodes of one infoset with identical
/// continuations (structurally equal subtrees).
pub fn hidden_irrelevant_move(rng: &mut Rng, subgames: usize) -> HNode {
    let mut outs = Vec::new();
    for g in 0..subgames {
        let (k, b) = (rng.range(2, 4), rng.range(2, 3));
        let mut rows: Vec<Vec<f64>> = (0..k).map(|_| (0..b).map(|_| (rng.range(0, 16) as f64 - 8.0) / 4.0).collect()).collect();
        for a in 1..k {
            if rng.chance(0.6) {
                rows[a] = rows[0].clone();
            }
        }
        let sub = player(
            0,
            format!("x{}", g),
            (0..k).map(|a| (format!("a{}", a), player(1, format!("y{}", g), (0..b).map(|j| (format!("b{}", j), term(rows[a][j]))).collect()))).collect(),
        );
        outs.push((1.0 + g as f64, sub));
    }
    if outs.len() == 1 {
        outs.pop().unwrap().1
    } else {
        chance(None, outs)
    }
}

/// A decision that matters above a decision that does not: player one stays out (payoff c) or
/// enters; after entering, one of the players chooses among k actions that all lead to the same
/// payoff v (exact ties in every regret of that infoset), with c strictly between v and k*v.
pub fn irrelevant_decision_below(rng: &mut Rng, k: usize) -> HNode {
    let owner = rng.below(2) as u8;
    // positive for the owner of the irrelevant decision
    let v = if owner == 0 { 0.25 } else { -0.25 };
    let c = if owner == 0 { 0.375 } else { -0.375 };
    let irrelevant = player(owner, "m", (0..k).map(|a| (format!("a{}", a), term(v))).collect());
    let (first, second) = (("out".to_string(), term(c)), ("in".to_string(), irrelevant));
    let root = player(0, "r", if rng.chance(0.5) { vec![first, second] } else { vec![second, first] });
    if rng.chance(0.5) {
        root
    } else {
        // the same decision reached after a chance move, next to an unrelated matrix game
        chance(None, vec![(1.0, root), (2.0, matching_pennies())])
    }
}

/// Player one fans out into k hidden actions; below each sits a chance node of ONE shared chance
/// infoset and then player two's single (blind) infoset: with k >= the task target every subtree
/// is its own task, and all of them meet at the same chance infoset and the same opponent infoset.
pub fn shared_chance_fan(rng: &mut Rng, k: usize) -> HNode {
    let b = rng.range(2, 3);
    let deep = rng.chance(0.6);
    let w = *rng.pick(&[1.0, 3.0]);
    let mut leaf = |rng: &mut Rng| term((rng.range(0, 16) as f64 - 8.0) / 4.0);
    // second layer (optional), so that each task is a subtree of some size
    let mut below_blind = |rng: &mut Rng, a: usize, j: usize| -> HNode {
        if !deep {
            return leaf(rng);
        }
        let _ = j;
        // player one moves again (knowing its first move): gives every task a subtree to work on
        player(0, format!("again{}", a), (0..2).map(|m| (format!("m{}", m), leaf(rng))).collect())
    };
    player(
        0,
        "fan",
        (0..k)
            .map(|a| {
                let outs = (0..2)
                    .map(|o| (if o == 0 { 1.0 } else { w }, player(1, "blind", (0..b).map(|j| (format!("b{}", j), below_blind(rng, a, j))).collect())))
                    .collect();
                (format!("a{}", a), chance(Some("coin".into()), outs))
            })
            .collect(),
    )
}

/// Like [shared_chance_fan] but with a private second move of player one between the hidden first
/// move and the shared chance node. With k < 3 x threads the frontier search of every parallel
/// solver stops among the k second-move nodes (they are player one's, so external sampling with
/// player one updating expands all of them, too), and the tasks that run at once then all draw at
/// the one shared chance infoset and the one blind infoset of player two *below* the frontier
/// (in [shared_chance_fan] an external-sampling pass draws both during the single-threaded
/// frontier search).
pub fn shared_chance_fan_below(rng: &mut Rng, k: usize, small: bool) -> HNode {
    let b = if small { 2 } else { rng.range(2, 3) };
    let deep = !small && rng.chance(0.5);
    let w = *rng.pick(&[1.0, 3.0]);
    let mut leaf = |rng: &mut Rng| term((rng.range(0, 16) as f64 - 8.0) / 4.0);
    let mut below_blind = |rng: &mut Rng, a: usize, c: usize| -> HNode {
        if !deep {
            return leaf(rng);
        }
        player(0, format!("again{}_{}", a, c), (0..2).map(|m| (format!("m{}", m), leaf(rng))).collect())
    };
    player(
        0,
        "fan",
        (0..k)
            .map(|a| {
                let pre = (0..2)
                    .map(|c| {
                        let outs = (0..2)
                            .map(|o| (if o == 0 { 1.0 } else { w }, player(1, "blind", (0..b).map(|j| (format!("b{}", j), below_blind(rng, a, c))).collect())))
                            .collect();
                        (format!("c{}", c), chance(Some("coin".into()), outs))
                    })
                    .collect();
                (format!("a{}", a), player(0, format!("pre{}", a), pre))
            })
            .collect(),
    )
}

pub fn structured(rng: &mut Rng, which: usize) -> (String, HNode) {
    match which % 19 {
        0 => ("matching_pennies".into(), matching_pennies()),
        1 => ("rps".into(), rps(1.0)),
        2 => {
            let (n, m) = (rng.range(2, 6), rng.range(2, 6));
            (format!("matrix{}x{}", n, m), random_matrix(rng, n, m))
        }
        3 => ("kuhn3".into(), kuhn(3, true)),
        4 => {
            let k = rng.range(3, 5);
            (format!("kuhn{}_two_chance", k), kuhn(k, false))
        }
        5 => {
            let d = rng.range(2, 40);
            (format!("centipede{}", d), centipede(d))
        }
        6 => {
            let d = rng.range(1, 30);
            (format!("degenerate_chain{}", d), degenerate_chain(d))
        }
        7 => {
            let n = *rng.pick(&[4, 16, 64]);
            (format!("wide_infoset{}", n), wide_infoset(rng, n, 3))
        }
        8 => {
            let eps = *rng.pick(&[1e-6, 1e-3, 1e-9]);
            (format!("rare_chance{:e}", eps), rare_chance(eps))
        }
        9 => {
            let games = trivial_games();
            let i = rng.below(games.len());
            (format!("trivial{}", i), games[i].clone())
        }
        10 => ("mini_leduc".into(), mini_leduc()),
        11 => ("rps_big".into(), rps(1e6)),
        12 => ("wide_matrix".into(), random_matrix(rng, 8, 8)),
        14 => {
            let (m, n) = (rng.range(2, 9), rng.range(2, 4));
            (format!("who_moves_first(outcomes={},actions={})", m, n), who_moves_first(rng, m, n))
        }
        15 => {
            let c = rng.range(1, 4);
            (format!("hidden_irrelevant_move(subgames={})", c), hidden_irrelevant_move(rng, c))
        }
        16 => {
            let k = rng.range(2, 4);
            (format!("irrelevant_decision_below(k={})", k), irrelevant_decision_below(rng, k))
        }
        17 => {
            let k = rng.range(4, 10);
            (format!("shared_chance_fan(k={})", k), shared_chance_fan(rng, k))
        }
        18 => ("rare_high_stakes".into(), rare_high_stakes(rng)),
        _ => ("centipede_deep".into(), centipede(rng.range(100, 300))),
    }
}

/// Workload mix used by most properties: mostly G1, some G2. Returns (description, tree).
/// One decision with `k` actions (far more than the usual handful) per player, the second player
/// not seeing the first move; with probability one half behind a chance node with `k` outcomes
pub fn wide_node(rng: &mut Rng, k: usize) -> HNode {
    let reply = |rng: &mut Rng| player(1, "wide-reply", (0..3).map(|j| (format!("b{}", j), term((rng.range(0, 16) as f64 - 8.0) / 4.0))).collect());
    let first = player(0, "wide", (0..k).map(|a| (format!("a{:03}", a), reply(rng))).collect());
    if rng.chance(0.5) {
        let leaf = |rng: &mut Rng| term((rng.range(0, 8) as f64 - 4.0) / 2.0);
        let mut outs: Vec<(f64, HNode)> = (0..k - 1).map(|_| (1.0, leaf(rng))).collect();
        outs.push((k as f64, first));
        chance(None, outs)
    } else {
        first
    }
}

pub fn any_game(rng: &mut Rng, size: usize) -> (String, HNode) {
    // now and then a game that is large in one dimension only: width or depth
    if rng.chance(0.006) {
        let k = *rng.pick(&[65usize, 100, 129, 300]);
        return (format!("wide_node(k={})", k), wide_node(rng, k));
    }
    if rng.chance(0.004) {
        let d = *rng.pick(&[400usize, 700, 1500]);
        return (format!("centipede{}", d), centipede(d));
    }
    if rng.chance(0.2) {
        let w = rng.below(18); // deep centipede (13) only on request
        structured(rng, if w >= 13 { w + 1 } else { w })
    } else {
        let par = GenParams::random(rng, size);
        let tree = random_tree(rng, &par);
        (
            format!(
                "g1(depth<={},budget={},pay={},w={},hide={})",
                par.max_depth, par.node_budget, par.payoff_family, par.weight_family, par.hide_rate
            ),
            tree,
        )
    }
}

// ---------------------------------------------------------------------------------------------
// Profiles

fn dirichlet(rng: &mut Rng, n: usize, conc: f64) -> Vec<f64> {
    // gamma(conc) via sum/power tricks is overkill; exp variates raised to 1/conc give a broad family
    let mut v: Vec<f64> = (0..n).map(|_| rng.exp().powf(1.0 / conc)).collect();
    let tot: f64 = v.iter().sum();
    if !(tot > 0.0) || !tot.is_finite() {
        return vec![1.0 / n as f64; n];
    }
    for x in v.iter_mut() {
        *x /= tot;
    }
    v
}

pub const PROFILE_KINDS: usize = 6;

/// kind: 0 random, 1 pure, 2 sparse with exact zeros, 3 near uniform, 4 tiny probabilities,
/// 5 skewed
pub fn random_profile(rng: &mut Rng, flat: &Flat, kind: usize) -> Profile {
    let mut mk = |p: usize| -> Vec<Vec<f64>> {
        flat.info_actions[p]
            .iter()
            .map(|acts| {
                let n = acts.len();
                if n == 1 {
                    return vec![1.0];
                }
                match kind % PROFILE_KINDS {
                    0 => dirichlet(rng, n, 1.0),
                    1 => {
                        let mut v = vec![0.0; n];
                        v[rng.below(n)] = 1.0;
                        v
                    }
                    2 => {
                        let mut v = dirichlet(rng, n, 1.0);
                        let keep = rng.below(n);
                        for (i, x) in v.iter_mut().enumerate() {
                            if i != keep && rng.chance(0.5) {
                                *x = 0.0;
                            }
                        }
                        let tot: f64 = v.iter().sum();
                        v.iter().map(|x| x / tot).collect()
                    }
                    3 => {
                        let v: Vec<f64> = (0..n).map(|_| 1.0 + 1e-6 * rng.unit()).collect();
                        let tot: f64 = v.iter().sum();
                        v.iter().map(|x| x / tot).collect()
                    }
                    4 => {
                        let mut v = vec![0.0; n];
                        let big = rng.below(n);
                        for (i, x) in v.iter_mut().enumerate() {
                            *x = if i == big {
                                1.0
                            } else if rng.chance(0.15) {
                                // positive subnormal probabilities are probabilities too
                                *rng.pick(&[5e-324, 1e-320, 1e-310, f64::MIN_POSITIVE])
                            } else {
                                10f64.powf(-300.0 * rng.unit())
                            };
                        }
                        let tot: f64 = v.iter().sum();
                        v.iter().map(|x| x / tot).collect()
                    }
                    _ => dirichlet(rng, n, 0.2),
                }
            })
            .collect()
    };
    [mk(0), mk(1)]
}

// ---------------------------------------------------------------------------------------------
// G3 bounded exhaustive enumeration

/// Odometer over all choice sequences a generator function makes
pub struct Enumerator {
    prefix: Vec<(usize, usize)>,
    pos: usize,
}

impl Enumerator {
    pub fn new() -> Self {
        Enumerator {
            prefix: Vec::new(),
            pos: 0,
        }
    }

    pub fn choose(&mut self, n: usize) -> usize {
        debug_assert!(n > 0);
        if self.pos < self.prefix.len() {
            let (v, m) = self.prefix[self.pos];
            debug_assert_eq!(m, n);
            self.pos += 1;
            v
        } else {
            self.prefix.push((0, n));
            self.pos += 1;
            0
        }
    }

    /// advance to the next sequence; false when exhausted
    pub fn advance(&mut self) -> bool {
        self.prefix.truncate(self.pos);
        while let Some((v, n)) = self.prefix.pop() {
            if v + 1 < n {
                self.prefix.push((v + 1, n));
                self.pos = 0;
                return true;
            }
        }
        self.pos = 0;
        false
    }
}

impl Default for Enumerator {
    fn default() -> Self {
        Self::new()
    }
}

/// One micro tree from the enumerator: at most `internal` internal nodes, at most `width`
/// children, infoset labels from {a,b}, actions l/r/m, payoffs from `pays`. Valid and invalid
/// trees alike.
pub fn micro_tree(e: &mut Enumerator, internal: usize, width: usize, pays: &[f64], with_chance_labels: bool) -> HNode {
    fn rec(
        e: &mut Enumerator,
        left: &mut usize,
        width: usize,
        pays: &[f64],
        with_chance_labels: bool,
    ) -> HNode {
        let kind = if *left == 0 { 0 } else { e.choose(4) };
        if kind == 0 {
            return HNode::Term(pays[e.choose(pays.len())]);
        }
        *left -= 1;
        let nkids = 1 + e.choose(width);
        if kind == 3 {
            let info = if with_chance_labels {
                match e.choose(2) {
                    0 => None,
                    _ => Some("k".to_string()),
                }
            } else {
                None
            };
            // weights from {1, 3}
            let outs = (0..nkids)
                .map(|_| {
                    let w = if e.choose(2) == 0 { 1.0 } else { 3.0 };
                    (w, rec(e, left, width, pays, with_chance_labels))
                })
                .collect();
            HNode::Chance { info, outs }
        } else {
            let info = ["a", "b"][e.choose(2)].to_string();
            let names = ["l", "r", "m"];
            let acts = (0..nkids)
                .map(|i| (names[i].to_string(), rec(e, left, width, pays, with_chance_labels)))
                .collect();
            HNode::Player {
                p: (kind - 1) as u8,
                info,
                acts,
            }
        }
    }
    let mut left = internal;
    rec(e, &mut left, width, pays, with_chance_labels)
}

// ---------------------------------------------------------------------------------------------
// Solver configurations

#[derive(Clone, Copy, Debug, PartialEq)]
pub enum ParamSpec {
    None,
    Vanilla,
    Lcfr,
    CfrPlus,
    Dcfr,
    DcfrPrune,
    Custom(f64, f64, f64, f64),
}

impl ParamSpec {
    pub fn to_params(self) -> Option<cfr::RegretParams> {
        use cfr::RegretParams as R;
        match self {
            ParamSpec::None => None,
            ParamSpec::Vanilla => Some(R::vanilla()),
            ParamSpec::Lcfr => Some(R::lcfr()),
            ParamSpec::CfrPlus => Some(R::cfr_plus()),
            ParamSpec::Dcfr => Some(R::dcfr()),
            ParamSpec::DcfrPrune => Some(R::dcfr_prune()),
            ParamSpec::Custom(a, b, g, w) => Some(R::new(a, b, g, w)),
        }
    }

    /// the documented tuple (alpha, beta, gamma, no_positive)
    pub fn documented(self) -> (f64, f64, f64, f64) {
        let inf = f64::INFINITY;
        match self {
            ParamSpec::Vanilla => (inf, inf, 0.0, 0.0),
            ParamSpec::Lcfr => (1.0, 1.0, 1.0, inf),
            ParamSpec::CfrPlus => (inf, -inf, 2.0, inf),
            ParamSpec::None | ParamSpec::Dcfr => (1.5, 0.0, 2.0, inf),
            ParamSpec::DcfrPrune => (1.5, 0.5, 2.0, inf),
            ParamSpec::Custom(a, b, g, w) => (a, b, g, w),
        }
    }

    pub fn name(self) -> String {
        match self {
            ParamSpec::Custom(a, b, g, w) => format!("custom({},{},{},{})", a, b, g, w),
            other => format!("{:?}", other).to_lowercase(),
        }
    }

    pub const PRESETS: [ParamSpec; 5] = [
        ParamSpec::Vanilla,
        ParamSpec::Lcfr,
        ParamSpec::CfrPlus,
        ParamSpec::Dcfr,
        ParamSpec::DcfrPrune,
    ];

    pub fn random(rng: &mut Rng) -> ParamSpec {
        match rng.below(10) {
            0 => ParamSpec::None,
            1 => ParamSpec::Vanilla,
            2 => ParamSpec::Lcfr,
            3 => ParamSpec::CfrPlus,
            4 => ParamSpec::Dcfr,
            5 => ParamSpec::DcfrPrune,
            _ => ParamSpec::random_custom(rng),
        }
    }

    pub fn random_custom(rng: &mut Rng) -> ParamSpec {
        let inf = f64::INFINITY;
        let ab = [-inf, -1e3, -5.0, -1.0, -0.5, 0.0, 0.5, 1.0, 1.5, 2.0, 5.0, 1e3, inf];
        let g = [0.0, 0.5, 1.0, 1.5, 2.0, 5.0, 1e3];
        ParamSpec::Custom(*rng.pick(&ab), *rng.pick(&ab), *rng.pick(&g), *rng.pick(&ab))
    }
}

pub fn method_name(m: cfr::SolveMethod) -> &'static str {
    match m {
        cfr::SolveMethod::Full => "full",
        cfr::SolveMethod::Sampled => "sampled",
        cfr::SolveMethod::External => "external",
        _ => "other",
    }
}

pub const METHODS: [cfr::SolveMethod; 3] = [
    cfr::SolveMethod::Full,
    cfr::SolveMethod::Sampled,
    cfr::SolveMethod::External,
];
