//! O1: independent evaluation of strategy profiles: expected payoff and best responses.
use crate::tree::{FNode, Flat, Profile};

/// Expected payoff to player one under the profile
pub fn expected(flat: &Flat, prof: &Profile) -> f64 {
    fn rec(flat: &Flat, prof: &Profile, id: usize) -> f64 {
        match &flat.nodes[id] {
            FNode::Term(p) => *p,
            FNode::Chance(cid, kids) => kids
                .iter()
                .zip(flat.chance_probs[*cid].iter())
                .map(|(k, p)| p * rec(flat, prof, *k))
                .sum(),
            FNode::Player(p, iid, kids) => kids
                .iter()
                .zip(prof[*p][*iid].iter())
                .map(|(k, q)| if *q > 0.0 { q * rec(flat, prof, *k) } else { 0.0 })
                .sum(),
        }
    }
    rec(flat, prof, 0)
}

struct Br<'a> {
    flat: &'a Flat,
    prof: &'a Profile,
    me: usize,
    /// counterfactual reach (chance x opponent) per node
    reach: Vec<f64>,
    /// 0 = unknown, 1 = in progress, 2+a = chosen action a
    choice: Vec<usize>,
    cyclic: bool,
}

impl Br<'_> {
    fn fill_reach(&mut self, id: usize, r: f64) {
        self.reach[id] = r;
        match &self.flat.nodes[id] {
            FNode::Term(_) => {}
            FNode::Chance(cid, kids) => {
                for (k, p) in kids.iter().zip(self.flat.chance_probs[*cid].iter()) {
                    self.fill_reach(*k, r * p);
                }
            }
            FNode::Player(p, iid, kids) => {
                for (a, k) in kids.iter().enumerate() {
                    let q = if *p == self.me {
                        1.0
                    } else {
                        self.prof[*p][*iid][a]
                    };
                    self.fill_reach(*k, r * q);
                }
            }
        }
    }

    fn choose(&mut self, iid: usize) -> usize {
        match self.choice[iid] {
            0 => {}
            1 => {
                self.cyclic = true;
                return 0;
            }
            c => return c - 2,
        }
        self.choice[iid] = 1;
        let nact = self.flat.num_actions(self.me, iid);
        let mut best = 0;
        let mut best_val = f64::NEG_INFINITY;
        for a in 0..nact {
            let mut tot = 0.0;
            for h in self.flat.info_nodes[self.me][iid].clone() {
                let r = self.reach[h];
                if r > 0.0 {
                    let kid = match &self.flat.nodes[h] {
                        FNode::Player(_, _, kids) => kids[a],
                        _ => unreachable!(),
                    };
                    tot += r * self.u(kid);
                }
            }
            if tot > best_val {
                best_val = tot;
                best = a;
            }
        }
        self.choice[iid] = best + 2;
        best
    }

    /// value for `me` of the subtree at id (not weighted by reach)
    fn u(&mut self, id: usize) -> f64 {
        match &self.flat.nodes[id] {
            FNode::Term(p) => {
                if self.me == 0 {
                    *p
                } else {
                    -*p
                }
            }
            FNode::Chance(cid, kids) => {
                let kids = kids.clone();
                let cid = *cid;
                let mut tot = 0.0;
                for (i, k) in kids.iter().enumerate() {
                    let p = self.flat.chance_probs[cid][i];
                    tot += p * self.u(*k);
                }
                tot
            }
            FNode::Player(p, iid, kids) => {
                let (p, iid, kids) = (*p, *iid, kids.clone());
                if p == self.me {
                    let a = if kids.len() == 1 { 0 } else { self.choose(iid) };
                    self.u(kids[a])
                } else {
                    let mut tot = 0.0;
                    for (a, k) in kids.iter().enumerate() {
                        let q = self.prof[p][iid][a];
                        if q > 0.0 {
                            tot += q * self.u(*k);
                        }
                    }
                    tot
                }
            }
        }
    }
}

/// Value to `me` of the best response against the opponent's part of the profile. `None` if the
/// infoset structure is cyclic (not perfect recall).
pub fn best_response(flat: &Flat, prof: &Profile, me: usize) -> Option<f64> {
    let mut br = Br {
        flat,
        prof,
        me,
        reach: vec![0.0; flat.nodes.len()],
        choice: vec![0; flat.info_names[me].len()],
        cyclic: false,
    };
    br.fill_reach(0, 1.0);
    let v = br.u(0);
    if br.cyclic {
        None
    } else {
        Some(v)
    }
}

/// Best response by exhaustive enumeration of all pure strategies of `me`; `None` if there are
/// more than `limit` of them (counting work as strategies x nodes).
pub fn best_response_exhaustive(flat: &Flat, prof: &Profile, me: usize, limit: f64) -> Option<f64> {
    let multi: Vec<usize> = (0..flat.info_names[me].len())
        .filter(|i| flat.num_actions(me, *i) > 1)
        .collect();
    let mut work = flat.nodes.len() as f64;
    for i in &multi {
        work *= flat.num_actions(me, *i) as f64;
        if work > limit {
            return None;
        }
    }
    let mut pure = vec![0usize; flat.info_names[me].len()];
    fn rec(flat: &Flat, prof: &Profile, me: usize, pure: &[usize], id: usize) -> f64 {
        match &flat.nodes[id] {
            FNode::Term(p) => {
                if me == 0 {
                    *p
                } else {
                    -*p
                }
            }
            FNode::Chance(cid, kids) => kids
                .iter()
                .zip(flat.chance_probs[*cid].iter())
                .map(|(k, p)| p * rec(flat, prof, me, pure, *k))
                .sum(),
            FNode::Player(p, iid, kids) => {
                if *p == me {
                    rec(flat, prof, me, pure, kids[pure[*iid]])
                } else {
                    kids.iter()
                        .zip(prof[*p][*iid].iter())
                        .map(|(k, q)| {
                            if *q > 0.0 {
                                q * rec(flat, prof, me, pure, *k)
                            } else {
                                0.0
                            }
                        })
                        .sum()
                }
            }
        }
    }
    let mut best = f64::NEG_INFINITY;
    loop {
        let v = rec(flat, prof, me, &pure, 0);
        if v > best {
            best = v;
        }
        // odometer
        let mut k = 0;
        loop {
            if k == multi.len() {
                return Some(best);
            }
            let i = multi[k];
            pure[i] += 1;
            if pure[i] < flat.num_actions(me, i) {
                break;
            }
            pure[i] = 0;
            k += 1;
        }
    }
}

#[derive(Debug, Clone, Copy)]
pub struct Eval {
    pub util: f64,
    pub regret: [f64; 2],
}

impl Eval {
    pub fn total(&self) -> f64 {
        self.regret[0].max(self.regret[1])
    }
}

/// Utility and both regrets by the memoised best response. Panics on cyclic infoset structure.
pub fn evaluate(flat: &Flat, prof: &Profile) -> Eval {
    try_evaluate(flat, prof).expect("perfect recall")
}

pub fn try_evaluate(flat: &Flat, prof: &Profile) -> Option<Eval> {
    let util = expected(flat, prof);
    let br0 = best_response(flat, prof, 0)?;
    let br1 = best_response(flat, prof, 1)?;
    Some(Eval {
        util,
        regret: [(br0 - util).max(0.0), (br1 + util).max(0.0)],
    })
}
