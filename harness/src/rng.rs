//! Deterministic randomness: every case derives its own stream from (seed, property, case index).

#[derive(Clone, Debug)]
pub struct Rng(pub u64);

pub fn mix(mut z: u64) -> u64 {
    z = z.wrapping_add(0x9e37_79b9_7f4a_7c15);
    z = (z ^ (z >> 30)).wrapping_mul(0xbf58_476d_1ce4_e5b9);
    z = (z ^ (z >> 27)).wrapping_mul(0x94d0_49bb_1331_11eb);
    z ^ (z >> 31)
}

pub fn hash_str(s: &str) -> u64 {
    let mut h = 0xcbf2_9ce4_8422_2325u64;
    for b in s.bytes() {
        h ^= b as u64;
        h = h.wrapping_mul(0x1000_0000_01b3);
    }
    mix(h)
}

impl Rng {
    pub fn new(seed: u64) -> Self {
        Rng(mix(seed ^ 0xa076_1d64_78bd_642f))
    }

    pub fn for_case(seed: u64, prop: &str, idx: u64) -> Self {
        Rng(mix(mix(mix(seed) ^ hash_str(prop)) ^ idx))
    }

    pub fn fork(&mut self, tag: u64) -> Rng {
        Rng(mix(self.next() ^ mix(tag)))
    }

    pub fn next(&mut self) -> u64 {
        self.0 = self.0.wrapping_add(0x9e37_79b9_7f4a_7c15);
        mix(self.0)
    }

    /// uniform in 0..n (n > 0)
    pub fn below(&mut self, n: usize) -> usize {
        debug_assert!(n > 0);
        ((self.next() >> 11) % n as u64) as usize
    }

    /// uniform in lo..=hi
    pub fn range(&mut self, lo: usize, hi: usize) -> usize {
        lo + self.below(hi - lo + 1)
    }

    /// uniform in [0, 1)
    pub fn unit(&mut self) -> f64 {
        (self.next() >> 11) as f64 * (1.0 / (1u64 << 53) as f64)
    }

    pub fn chance(&mut self, p: f64) -> bool {
        self.unit() < p
    }

    pub fn pick<'a, T>(&mut self, items: &'a [T]) -> &'a T {
        &items[self.below(items.len())]
    }

    pub fn shuffle<T>(&mut self, items: &mut [T]) {
        for i in (1..items.len()).rev() {
            let j = self.below(i + 1);
            items.swap(i, j);
        }
    }

    /// standard exponential variate
    pub fn exp(&mut self) -> f64 {
        -(1.0 - self.unit()).ln()
    }
}
