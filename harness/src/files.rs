//! G5: game files. The harness keeps its own semantic tree for every file it writes and never
//! reads a file back through cfr's parsers.
use crate::gen;
use crate::rng::Rng;
use crate::tree::HNode;
use std::collections::HashMap;

#[derive(Clone, Copy, Debug, PartialEq)]
pub enum Format {
    Json,
    Efg,
}

#[derive(Clone, Debug)]
pub struct FileGame {
    /// semantic tree: player-one payoffs net of half the constant, infoset labels as cfr will print
    /// them, actions and chance outcomes in the order cfr will see them (sorted by name)
    pub tree: HNode,
    /// sum of both players' payoffs at every terminal (0 for the JSON DSL)
    pub constant: f64,
    pub text: String,
    pub format: Format,
    /// every number in the file arrives in cfr bit-exactly (dyadic probabilities, short payoffs,
    /// no interior payoffs, zero constant): the library result must then be reproduced bit for bit
    pub exact: bool,
    pub features: Vec<&'static str>,
    /// Gambit files: both players' total payoffs (interior + terminal) on every root-to-leaf path,
    /// as written into the file
    pub totals: Vec<(f64, f64)>,
}

pub fn quote(s: &str) -> String {
    let mut out = String::from("\"");
    for c in s.chars() {
        match c {
            '"' => out.push_str("\\\""),
            '\\' => out.push_str("\\\\"),
            _ => out.push(c),
        }
    }
    out.push('"');
    out
}

fn jquote(s: &str) -> String {
    serde_json::to_string(s).unwrap()
}

fn outcome_name(i: usize) -> String {
    format!("o{:02}", i)
}

/// A game for the CLI workloads: integer chance weights, payoffs that survive decimal text
pub fn cli_game(rng: &mut Rng, size: usize, dyadic_payoffs: bool) -> (String, HNode) {
    let (desc, tree) = if rng.chance(0.04) {
        // deep games: every move adds three levels of JSON nesting (and one line of Gambit text)
        let d = *rng.pick(&[41usize, 45, 60, 120, 300]);
        (format!("centipede{}", d), gen::centipede(d))
    } else if rng.chance(0.25) {
        let w = *rng.pick(&[0usize, 1, 2, 3, 4, 5, 6, 9, 10]);
        gen::structured(rng, w)
    } else {
        let mut par = gen::GenParams::random(rng, size);
        par.payoff_family = if dyadic_payoffs { *rng.pick(&[0usize, 6, 0, 5]) } else { *rng.pick(&[0usize, 1, 4, 6, 7]) };
        par.node_budget = par.node_budget.min(300);
        let t = gen::random_tree(rng, &par);
        (format!("g1(depth<={},budget={},pay={})", par.max_depth, par.node_budget, par.payoff_family), t)
    };
    (desc, integerize(&tree))
}

/// replace chance weights by small integers (same weights -> same integers, so shared infosets
/// stay consistent)
pub fn integerize(n: &HNode) -> HNode {
    match n {
        HNode::Term(p) => HNode::Term(*p),
        HNode::Chance { info, outs } => {
            let min = outs.iter().map(|(w, _)| *w).fold(f64::INFINITY, f64::min);
            HNode::Chance {
                info: info.clone(),
                outs: outs.iter().map(|(w, k)| (((w / min).round()).clamp(1.0, 6.0), integerize(k))).collect(),
            }
        }
        HNode::Player { p, info, acts } => HNode::Player { p: *p, info: info.clone(), acts: acts.iter().map(|(a, k)| (a.clone(), integerize(k))).collect() },
    }
}

/// decorate names with spaces, quotes, backslashes and non-ascii characters (injective)
pub fn fancy_names(n: &HNode) -> HNode {
    fancy_names_with(n, "")
}

/// [fancy_names] with further characters appended to every player infoset name (multi-byte ones make
/// most byte offsets of a diagnostic that quotes the input fall inside a character)
pub fn fancy_names_with(n: &HNode, extra: &str) -> HNode {
    match n {
        HNode::Term(p) => HNode::Term(*p),
        HNode::Chance { info, outs } => HNode::Chance { info: info.as_ref().map(|s| format!("deal \"{}\"", s)), outs: outs.iter().map(|(w, k)| (*w, fancy_names_with(k, extra))).collect() },
        HNode::Player { p, info, acts } => HNode::Player {
            p: *p,
            info: format!("info \"{}\" \u{e9}{}\\", info, extra),
            acts: acts.iter().map(|(a, k)| (format!("{} \"do\"", a), fancy_names_with(k, extra))).collect(),
        },
    }
}

fn is_pow2(x: u64) -> bool {
    x != 0 && x & (x - 1) == 0
}

fn short_number(x: f64) -> bool {
    // multiples of 1/4 of moderate size print as short decimals that every parser reads exactly
    (x * 4.0).fract() == 0.0 && x.abs() < 1e9
}

/// sort actions by name and give chance outcomes their index names; this is the order cfr sees
fn canonical(n: &HNode) -> HNode {
    match n {
        HNode::Term(p) => HNode::Term(*p),
        HNode::Chance { info, outs } => HNode::Chance { info: info.clone(), outs: outs.iter().map(|(w, k)| (*w, canonical(k))).collect() },
        HNode::Player { p, info, acts } => {
            let mut acts: Vec<(String, HNode)> = acts.iter().map(|(a, k)| (a.clone(), canonical(k))).collect();
            acts.sort_by(|a, b| a.0.cmp(&b.0));
            HNode::Player { p: *p, info: info.clone(), acts }
        }
    }
}

/// JSON hands the integer weights to the library as they are, so only payoffs matter there
fn all_exact(n: &HNode) -> bool {
    match n {
        HNode::Term(p) => short_number(*p),
        HNode::Chance { outs, .. } => outs.iter().all(|(w, k)| w.fract() == 0.0 && all_exact(k)),
        HNode::Player { acts, .. } => acts.iter().all(|(_, k)| all_exact(k)),
    }
}

// ---------------------------------------------------------------------------------------------
// JSON DSL

pub fn write_json(rng: &mut Rng, tree: &HNode) -> FileGame {
    let canon = canonical(tree);
    fn rec(rng: &mut Rng, n: &HNode, out: &mut String) {
        match n {
            HNode::Term(p) => {
                // integers are written without a fraction now and then
                out.push_str(&format!("{{\"terminal\": {}}}", if p.fract() == 0.0 && p.abs() < 1e15 && rng.chance(0.5) { format!("{}", *p as i64) } else { format!("{:?}", p) }));
            }
            HNode::Chance { info, outs } => {
                let mut fields: Vec<String> = Vec::new();
                if let Some(i) = info {
                    fields.push(format!("\"infoset\": {}", jquote(i)));
                } else if rng.chance(0.3) {
                    fields.push("\"infoset\": null".to_string());
                }
                let mut items: Vec<String> = Vec::new();
                for (k, (w, kid)) in outs.iter().enumerate() {
                    let mut s = String::new();
                    rec(rng, kid, &mut s);
                    let prob = if rng.chance(0.5) { format!("{}", *w as i64) } else { format!("{:?}", w) };
                    let inner = if rng.chance(0.5) { format!("{{\"prob\": {}, \"state\": {}}}", prob, s) } else { format!("{{\"state\": {}, \"prob\": {}}}", s, prob) };
                    items.push(format!("{}: {}", jquote(&outcome_name(k)), inner));
                }
                rng.shuffle(&mut items);
                fields.push(format!("\"outcomes\": {{{}}}", items.join(", ")));
                rng.shuffle(&mut fields);
                out.push_str(&format!("{{\"chance\": {{{}}}}}", fields.join(", ")));
            }
            HNode::Player { p, info, acts } => {
                let mut items: Vec<String> = Vec::new();
                for (a, kid) in acts {
                    let mut s = String::new();
                    rec(rng, kid, &mut s);
                    items.push(format!("{}: {}", jquote(a), s));
                }
                rng.shuffle(&mut items);
                let mut fields = vec![format!("\"player_one\": {}", *p == 0), format!("\"infoset\": {}", jquote(info)), format!("\"actions\": {{{}}}", items.join(", "))];
                rng.shuffle(&mut fields);
                out.push_str(&format!("{{\"player\": {{{}}}}}", fields.join(", ")));
            }
        }
    }
    let mut text = String::new();
    rec(rng, &canon, &mut text);
    FileGame { exact: all_exact(&canon), tree: canon, constant: 0.0, text, format: Format::Json, features: vec!["json"], totals: Vec::new() }
}

// ---------------------------------------------------------------------------------------------
// Gambit .efg

#[derive(Clone, Copy, Debug, PartialEq)]
pub enum Naming {
    /// every infoset carries its label as explicit name
    Named,
    /// no infoset is named: cfr uses the infoset number
    Unnamed,
    /// roughly half of the infosets are named
    Mixed,
    /// two different infosets of one player carry the same explicit name (invalid for cfr)
    Duplicate,
    /// an unnamed infoset whose number string is the explicit name of another infoset of the same
    /// player (invalid for cfr)
    NumberClash,
}

#[derive(Clone, Debug)]
pub struct EfgOpts {
    pub constant: f64,
    pub interior: bool,
    pub share_outcomes: bool,
    pub naming: Naming,
    pub decimal_probs: bool,
    /// 0: chance actions labelled o00, o01, ...; 1: all labelled ""; 2: all labelled "deal"
    /// (repeated labels within one chance node are legal: the format identifies outcomes by position)
    pub chance_labels: u8,
    pub shuffle_actions: bool,
    pub outcome_names: bool,
    pub commas: bool,
    pub comment: bool,
    pub cross_player_number_names: bool,
    /// an outcome whose payoffs are stated at one node is attached by number only at the other
    /// interior nodes that use it (the format allows it)
    pub by_reference: bool,
    /// INVALID file: one interior node (below a branching) carries an outcome with a clearly
    /// non-zero pair sum that the terminals below it do not compensate: not constant sum
    pub uncompensated: bool,
    /// an explicitly named infoset with several nodes states its name at some of them only (the
    /// first, the last, or a random non-empty subset): the format makes the name optional per node
    pub sparse_names: bool,
    /// payoffs written in several legal number forms (fractions, exponents, explicit sign, no
    /// leading zero)
    pub number_forms: bool,
}

impl EfgOpts {
    pub fn plain() -> EfgOpts {
        EfgOpts { constant: 0.0, interior: false, share_outcomes: false, naming: Naming::Named, decimal_probs: false, chance_labels: 0, shuffle_actions: false, outcome_names: false, commas: false, comment: false, cross_player_number_names: false, by_reference: false, uncompensated: false, sparse_names: false, number_forms: false }
    }

    pub fn random(rng: &mut Rng, dyadic: bool) -> EfgOpts {
        EfgOpts {
            constant: if dyadic { *rng.pick(&[0.0, 0.0, 10.0, -3.5, 1.0, 100.0]) } else { 0.0 },
            interior: dyadic && rng.chance(0.4),
            share_outcomes: rng.chance(0.5),
            naming: *rng.pick(&[Naming::Named, Naming::Named, Naming::Unnamed, Naming::Mixed]),
            decimal_probs: rng.chance(0.4),
            chance_labels: *rng.pick(&[0u8, 0, 0, 1, 2]),
            shuffle_actions: rng.chance(0.5),
            outcome_names: rng.chance(0.3),
            commas: rng.chance(0.4),
            comment: rng.chance(0.3),
            cross_player_number_names: rng.chance(0.15),
            by_reference: rng.chance(0.5),
            uncompensated: false,
            sparse_names: rng.chance(0.3),
            number_forms: dyadic && rng.chance(0.3),
        }
    }
}

struct EfgWriter<'a> {
    rng: &'a mut Rng,
    opts: &'a EfgOpts,
    out: String,
    /// per player: label -> (number, printed name, explicit name written in the file)
    infos: [HashMap<String, (u64, String, Option<String>)>; 2],
    chance_numbers: HashMap<String, u64>,
    next_chance: u64,
    outcomes: HashMap<(u64, u64), u64>,
    next_outcome: u64,
    features: Vec<&'static str>,
    exact: bool,
    totals: Vec<(f64, f64)>,
    /// interior occurrences of outcomes: (byte range of the payoff list incl. leading space, outcome)
    interior_sites: Vec<(usize, usize, u64)>,
    terminal_outcomes: std::collections::HashSet<u64>,
    /// interior pairs already stated: (outcome, da, db)
    stated: Vec<(u64, f64, f64)>,
    uncompensated_done: bool,
}

fn num(x: f64) -> String {
    if x.fract() == 0.0 && x.abs() < 1e15 {
        format!("{}", x as i64)
    } else {
        format!("{:?}", x)
    }
}

impl EfgWriter<'_> {
    /// one payoff as text: with `number_forms` a dyadic value may be written as a fraction, with an
    /// exponent, with an explicit plus sign or without the leading zero (all legal, all exact)
    fn pay(&mut self, x: f64) -> String {
        if !self.opts.number_forms || !x.is_finite() || x == 0.0 {
            return num(x);
        }
        let scaled = x * 64.0;
        if scaled.fract() != 0.0 || scaled.abs() > 1e9 {
            return num(x);
        }
        match self.rng.below(6) {
            0 => {
                // lowest terms over a power of two
                let (mut n, mut d) = (scaled as i64, 64i64);
                while n % 2 == 0 && d > 1 {
                    n /= 2;
                    d /= 2;
                }
                if d == 1 {
                    format!("{}", n)
                } else {
                    format!("{}/{}", n, d)
                }
            }
            1 => format!("{}/64", scaled as i64),
            2 => format!("{:?}e-1", x * 10.0).replace(".0e", "e"),
            3 if x > 0.0 => format!("+{}", num(x)),
            4 if x.abs() < 1.0 => num(x).replacen("0.", ".", 1),
            _ => num(x),
        }
    }

    fn payoffs(&mut self, a: f64, b: f64) -> String {
        let (sa, sb) = (self.pay(a), self.pay(b));
        if self.opts.commas {
            format!("{{ {}, {} }}", sa, sb)
        } else {
            format!("{{ {} {} }}", sa, sb)
        }
    }

    fn outcome(&mut self, a: f64, b: f64) -> u64 {
        if self.opts.share_outcomes {
            let key = (a.to_bits(), b.to_bits());
            if let Some(o) = self.outcomes.get(&key) {
                return *o;
            }
            let o = self.next_outcome;
            self.next_outcome += 1;
            self.outcomes.insert(key, o);
            o
        } else {
            let o = self.next_outcome;
            self.next_outcome += 1;
            o
        }
    }

    /// remember where the payoff list of an interior outcome was written (the line just pushed)
    fn note_site(&mut self, site: Option<u64>, interior: &str) {
        if let Some(o) = site {
            // span of everything after the outcome number (optional name and the payoff list), up
            // to the newline that ends the line
            let end = self.out.len() - 1;
            let start = end - interior.len() + o.to_string().len();
            self.interior_sites.push((start, end, o));
        }
    }

    /// By-reference outcomes: for every outcome used at several places keep the payoff list at one
    /// place only (a terminal if there is one, else a random interior occurrence) and drop it at
    /// most of the other interior occurrences.
    fn strip_references(&mut self) {
        let mut by_outcome: HashMap<u64, Vec<usize>> = HashMap::new();
        for (i, (_, _, o)) in self.interior_sites.iter().enumerate() {
            by_outcome.entry(*o).or_default().push(i);
        }
        let mut drop: Vec<usize> = Vec::new();
        let mut keys: Vec<u64> = by_outcome.keys().cloned().collect();
        keys.sort();
        for o in keys {
            let sites = &by_outcome[&o];
            let keep = if self.terminal_outcomes.contains(&o) { usize::MAX } else { sites[self.rng.below(sites.len())] };
            for s in sites {
                if *s != keep && self.rng.chance(0.7) {
                    drop.push(*s);
                }
            }
        }
        if drop.is_empty() {
            return;
        }
        drop.sort_by(|a, b| self.interior_sites[*b].0.cmp(&self.interior_sites[*a].0));
        for i in drop {
            let (start, end, _) = self.interior_sites[i];
            self.out.replace_range(start..end, "");
        }
        self.features.push("outcome-by-reference");
    }

    /// writes the node; returns the semantic node. `acc` = payoffs already granted on the path and
    /// compensated at the terminals; `extra` = payoffs granted on the path that are NOT compensated
    /// (invalid files only); `branched` = some ancestor has several children
    fn node(&mut self, n: &HNode, acc: (f64, f64), extra: (f64, f64), branched: bool) -> HNode {
        // interior payoff at this node?
        let mut acc = acc;
        let mut extra = extra;
        let mut interior = String::from("0");
        let mut site: Option<u64> = None;
        if self.opts.interior && !matches!(n, HNode::Term(_)) && self.rng.chance(0.3) {
            let da = *self.rng.pick(&[0.5, -1.0, 2.0, 0.25]);
            let db = *self.rng.pick(&[0.5, -1.0, 2.0, -0.25]);
            let o = self.outcome(da, db);
            acc = (acc.0 + da, acc.1 + db);
            let pay = self.payoffs(da, db);
            interior = if self.opts.outcome_names && matches!(n, HNode::Player { .. }) { format!("{} \"out{}\" {}", o, o, pay) } else { format!("{} {}", o, pay) };
            site = Some(o);
            self.stated.push((o, da, db));
            self.exact = false;
            if !self.features.contains(&"interior-payoffs") {
                self.features.push("interior-payoffs");
            }
        } else if self.opts.uncompensated && !self.uncompensated_done && branched && !matches!(n, HNode::Term(_)) && self.rng.chance(0.4) {
            // an outcome with a clearly non-zero pair sum that nothing below compensates
            let known: Vec<(u64, f64, f64)> = self.stated.iter().cloned().filter(|(_, a, b)| (a + b).abs() >= 0.5).collect();
            let (o, da, db, by_ref) = if !known.is_empty() && self.rng.chance(0.7) {
                let k = known[self.rng.below(known.len())];
                (k.0, k.1, k.2, self.rng.chance(0.7))
            } else {
                let (da, db) = *self.rng.pick(&[(1.0, 1.0), (0.5, 0.25), (-3.0, 1.0), (2.0, -1.0)]);
                let o = self.next_outcome;
                self.next_outcome += 1;
                (o, da, db, false)
            };
            extra = (extra.0 + da, extra.1 + db);
            interior = if by_ref { format!("{}", o) } else { format!("{} {}", o, self.payoffs(da, db)) };
            self.uncompensated_done = true;
            self.features.push(if by_ref { "uncompensated-interior-outcome-by-reference" } else { "uncompensated-interior-outcome-stated" });
        }
        match n {
            HNode::Term(u) => {
                let one = u + self.opts.constant / 2.0;
                let two = self.opts.constant / 2.0 - u;
                let (a, b) = (one - acc.0, two - acc.1);
                let o = self.outcome(a, b);
                let pay = self.payoffs(a, b);
                if !short_number(a) || !short_number(b) {
                    self.exact = false;
                }
                self.totals.push((acc.0 + extra.0 + a, acc.1 + extra.1 + b));
                self.terminal_outcomes.insert(o);
                if self.opts.outcome_names {
                    self.out.push_str(&format!("t \"\" {} \"out{}\" {}\n", o, o, pay));
                } else {
                    self.out.push_str(&format!("t \"\" {} {}\n", o, pay));
                }
                HNode::Term(*u)
            }
            HNode::Chance { info, outs } => {
                let number = match info {
                    Some(l) => {
                        if let Some(k) = self.chance_numbers.get(l) {
                            *k
                        } else {
                            let k = self.next_chance;
                            self.next_chance += 1;
                            self.chance_numbers.insert(l.clone(), k);
                            k
                        }
                    }
                    None => {
                        let k = self.next_chance;
                        self.next_chance += 1;
                        k
                    }
                };
                let tot: f64 = outs.iter().map(|(w, _)| *w).sum();
                let toti = tot as u64;
                if !is_pow2(toti) {
                    self.exact = false;
                }
                let decimal_ok = self.opts.decimal_probs && outs.iter().all(|(w, _)| ((*w as u64) * 10000) % toti == 0);
                let mut list = String::new();
                for (k, (w, _)) in outs.iter().enumerate() {
                    let p = if decimal_ok {
                        let v = (*w as u64 * 10000) / toti;
                        format!("{}.{:04}", v / 10000, v % 10000)
                    } else if toti == 1 {
                        "1".to_string()
                    } else {
                        format!("{}/{}", *w as u64, toti)
                    };
                    let label = match self.opts.chance_labels {
                        1 => String::new(),
                        2 => "deal".to_string(),
                        _ => outcome_name(k),
                    };
                    list.push_str(&format!("{} {} ", quote(&label), p));
                }
                self.out.push_str(&format!("c \"\" {} {{ {}}} {}\n", number, list, interior));
                self.note_site(site, &interior);
                let b2 = branched || outs.len() > 1;
                let kids = outs.iter().map(|(w, k)| (*w, self.node(k, acc, extra, b2))).collect();
                HNode::Chance { info: Some(format!("#{}", number)), outs: kids }
            }
            HNode::Player { p, info, acts } => {
                let pi = *p as usize;
                let (number, printed, explicit) = self.infos[pi].get(info).cloned().expect("infoset table prepared");
                // file order of actions (any order; cfr sorts by name)
                let mut order: Vec<usize> = (0..acts.len()).collect();
                if self.opts.shuffle_actions {
                    self.rng.shuffle(&mut order);
                }
                let list: String = order.iter().map(|i| format!("{} ", quote(&acts[*i].0))).collect();
                let name_part = match &explicit {
                    Some(e) => format!(" {}", quote(e)),
                    None => String::new(),
                };
                self.out.push_str(&format!("p \"\" {} {}{} {{ {}}} {}\n", pi + 1, number, name_part, list, interior));
                self.note_site(site, &interior);
                let b2 = branched || acts.len() > 1;
                let mut kids: Vec<Option<HNode>> = vec![None; acts.len()];
                for i in order {
                    kids[i] = Some(self.node(&acts[i].1, acc, extra, b2));
                }
                let mut sem: Vec<(String, HNode)> = acts.iter().zip(kids).map(|((a, _), k)| (a.clone(), k.unwrap())).collect();
                sem.sort_by(|a, b| a.0.cmp(&b.0));
                HNode::Player { p: *p, info: printed, acts: sem }
            }
        }
    }
}

fn collect_infosets(n: &HNode, out: &mut [Vec<String>; 2]) {
    match n {
        HNode::Term(_) => {}
        HNode::Chance { outs, .. } => outs.iter().for_each(|(_, k)| collect_infosets(k, out)),
        HNode::Player { p, info, acts } => {
            if !out[*p as usize].contains(info) {
                out[*p as usize].push(info.clone());
            }
            acts.iter().for_each(|(_, k)| collect_infosets(k, out));
        }
    }
}

pub fn write_efg(rng: &mut Rng, tree: &HNode, opts: &EfgOpts) -> FileGame {
    let mut labels: [Vec<String>; 2] = Default::default();
    collect_infosets(tree, &mut labels);
    let mut infos: [HashMap<String, (u64, String, Option<String>)>; 2] = Default::default();
    let mut features: Vec<&'static str> = vec!["efg"];
    for p in 0..2 {
        // infoset numbers need not be dense or ordered
        let mut numbers: Vec<u64> = (1..=labels[p].len() as u64).map(|k| k * 3 + 1).collect();
        rng.shuffle(&mut numbers);
        for (i, l) in labels[p].iter().enumerate() {
            let number = numbers[i];
            let named = match opts.naming {
                Naming::Named | Naming::Duplicate | Naming::NumberClash => true,
                Naming::Unnamed => false,
                Naming::Mixed => rng.chance(0.5),
            };
            let entry = if named { (number, l.clone(), Some(l.clone())) } else { (number, number.to_string(), None) };
            infos[p].insert(l.clone(), entry);
        }
        if opts.naming == Naming::Duplicate && labels[p].len() >= 2 && p == 0 {
            let dup = if rng.chance(0.5) { String::new() } else { "same".to_string() };
            for l in labels[p].iter().take(2) {
                let e = infos[p].get_mut(l).unwrap();
                e.1 = dup.clone();
                e.2 = Some(dup.clone());
            }
            features.push("duplicate-explicit-infoset-name");
        }
        if opts.naming == Naming::NumberClash && labels[p].len() >= 2 && p == 0 {
            // infoset A unnamed (number n), infoset B explicitly named "n"
            let n_a = infos[p][&labels[p][0]].0;
            let e = infos[p].get_mut(&labels[p][0]).unwrap();
            e.1 = n_a.to_string();
            e.2 = None;
            let e = infos[p].get_mut(&labels[p][1]).unwrap();
            e.1 = n_a.to_string();
            e.2 = Some(n_a.to_string());
            features.push("unnamed-infoset-number-is-another-infosets-name");
        }
    }
    if opts.cross_player_number_names && !labels[0].is_empty() && !labels[1].is_empty() {
        // an explicit name of player two's infoset equals the number string of an unnamed infoset
        // of player one: allowed
        let l0 = labels[0][0].clone();
        let n0 = infos[0][&l0].0;
        if infos[0][&l0].2.is_none() {
            let l1 = labels[1][0].clone();
            let taken = infos[1].values().any(|(_, printed, _)| *printed == n0.to_string());
            if !taken {
                let e = infos[1].get_mut(&l1).unwrap();
                e.1 = n0.to_string();
                e.2 = Some(n0.to_string());
                features.push("name-equals-number-of-other-players-infoset");
            }
        }
    }
    match opts.naming {
        Naming::Unnamed => features.push("unnamed-infosets"),
        Naming::Mixed => features.push("mixed-named-infosets"),
        _ => {}
    }
    if opts.number_forms {
        features.push("payoffs-as-fractions-exponents-signed");
    }
    if opts.constant != 0.0 {
        features.push("constant-sum-nonzero");
    }
    if opts.share_outcomes {
        features.push("shared-outcomes");
    }
    if opts.decimal_probs {
        features.push("decimal-probabilities");
    }
    if opts.chance_labels != 0 {
        features.push("repeated-chance-action-labels");
    }
    if opts.shuffle_actions {
        features.push("unsorted-action-lists");
    }
    let mut w = EfgWriter {
        rng,
        opts,
        out: String::new(),
        infos,
        chance_numbers: HashMap::new(),
        next_chance: 1,
        outcomes: HashMap::new(),
        next_outcome: 1,
        features,
        exact: opts.constant == 0.0 && opts.chance_labels == 0,
        totals: Vec::new(),
        interior_sites: Vec::new(),
        terminal_outcomes: std::collections::HashSet::new(),
        stated: Vec::new(),
        uncompensated_done: false,
    };
    w.out.push_str(&format!("EFG 2 R {} {{ \"Player 1\" \"Player 2\" }}\n", quote("generated \"game\"")));
    if opts.comment {
        w.out.push_str("\"a comment\"\n");
    }
    w.out.push('\n');
    let sem = w.node(tree, (0.0, 0.0), (0.0, 0.0), false);
    if opts.by_reference {
        w.strip_references();
    }
    if opts.sparse_names && !matches!(opts.naming, Naming::Duplicate | Naming::NumberClash) {
        // text-level: per named infoset, the lines that state its name
        let mut sites: HashMap<(usize, u64), Vec<usize>> = HashMap::new();
        let mut lines: Vec<String> = w.out.lines().map(|l| l.to_string()).collect();
        let mut heads: HashMap<(usize, u64), (String, String)> = HashMap::new();
        for p in 0..2 {
            for (_, (number, _, explicit)) in w.infos[p].iter() {
                if let Some(e) = explicit {
                    let bare = format!("p \"\" {} {} {{", p + 1, number);
                    let full = format!("p \"\" {} {} {} {{", p + 1, number, quote(e));
                    heads.insert((p, *number), (full, bare));
                }
            }
        }
        for (li, l) in lines.iter().enumerate() {
            for (key, (full, _)) in heads.iter() {
                if l.starts_with(full.as_str()) {
                    sites.entry(*key).or_default().push(li);
                }
            }
        }
        let mut keys: Vec<(usize, u64)> = sites.keys().copied().collect();
        keys.sort();
        let mut any = false;
        for key in keys {
            let at = &sites[&key];
            if at.len() < 2 {
                continue;
            }
            let keep: Vec<bool> = match w.rng.below(3) {
                0 => (0..at.len()).map(|i| i == 0).collect(),
                1 => (0..at.len()).map(|i| i + 1 == at.len()).collect(),
                _ => {
                    let mut k: Vec<bool> = (0..at.len()).map(|_| w.rng.chance(0.4)).collect();
                    let force = w.rng.below(at.len());
                    k[force] = true;
                    k
                }
            };
            let (full, bare) = &heads[&key];
            for (i, li) in at.iter().enumerate() {
                if !keep[i] {
                    lines[*li] = format!("{}{}", bare, &lines[*li][full.len()..]);
                    any = true;
                }
            }
        }
        if any {
            w.out = lines.join("\n") + "\n";
            w.features.push("infoset-name-stated-at-some-nodes-only");
        }
    }
    FileGame { tree: sem, constant: opts.constant, text: w.out, format: Format::Efg, exact: w.exact, features: w.features, totals: w.totals }
}
