//! Per-shard bookkeeping: verdict counts, distinct-case hashes, measured counters, samples and
//! violations. Written as one JSON file per shard; the python driver merges shards.
use crate::rng::Rng;
use serde_json::{json, Map, Value};
use std::collections::{BTreeMap, HashSet};
use std::fs::File;
use std::io::{Seek, SeekFrom, Write};
use std::time::Instant;

#[derive(Clone, Copy, Debug, PartialEq, Eq)]
pub enum Tier {
    Quick,
    Thorough,
}

pub struct Ctx {
    pub prop: String,
    pub tier: Tier,
    pub seed: u64,
    pub shard: u64,
    pub nshards: u64,
    pub only: Option<u64>,
    pub out_path: String,
    pub cli: Option<String>,
    pub scratch: String,
    pub budget_s: f64,
    pub start: Instant,
    cur: Option<File>,
    pub evaluations: u64,
    pub held: u64,
    pub inconclusive: u64,
    pub dontcare: u64,
    pub violations: Vec<Value>,
    pub hashes: HashSet<u64>,
    pub counters: BTreeMap<String, u64>,
    pub maxes: BTreeMap<String, f64>,
    pub samples: Vec<Value>,
    pub inconclusive_notes: Vec<String>,
    pub cases_done: u64,
    pub stopped_early: bool,
    pub max_violations: usize,
    /// signatures listed as known findings: counted, two examples kept, never stop the run
    pub known: Vec<String>,
    pub unknown_violations: usize,
}

impl Ctx {
    pub fn new(
        prop: &str,
        tier: Tier,
        seed: u64,
        shard: u64,
        nshards: u64,
        only: Option<u64>,
        out_path: &str,
        budget_s: f64,
    ) -> Ctx {
        let cur = if only.is_none() {
            File::create(format!("{}.cur", out_path)).ok()
        } else {
            None
        };
        Ctx {
            prop: prop.to_string(),
            tier,
            seed,
            shard,
            nshards,
            only,
            out_path: out_path.to_string(),
            cli: None,
            scratch: String::new(),
            budget_s,
            start: Instant::now(),
            cur,
            evaluations: 0,
            held: 0,
            inconclusive: 0,
            dontcare: 0,
            violations: Vec::new(),
            hashes: HashSet::new(),
            counters: BTreeMap::new(),
            maxes: BTreeMap::new(),
            samples: Vec::new(),
            inconclusive_notes: Vec::new(),
            cases_done: 0,
            stopped_early: false,
            max_violations: 40,
            known: Vec::new(),
            unknown_violations: 0,
        }
    }

    pub fn quick(&self) -> bool {
        self.tier == Tier::Quick
    }

    /// Iterate the case indices of this shard up to `n`, stopping at the time budget.
    /// Calls `f(ctx, idx, rng)`.
    pub fn run_cases(&mut self, n: u64, mut f: impl FnMut(&mut Ctx, u64, &mut Rng)) {
        if let Some(idx) = self.only {
            let mut rng = Rng::for_case(self.seed, &self.prop.clone(), idx);
            f(self, idx, &mut rng);
            self.cases_done += 1;
            return;
        }
        let mut idx = self.shard;
        while idx < n {
            if self.start.elapsed().as_secs_f64() > self.budget_s {
                self.stopped_early = true;
                break;
            }
            if self.unknown_violations >= self.max_violations {
                self.stopped_early = true;
                break;
            }
            self.mark(idx, "");
            let prop = self.prop.clone();
            let mut rng = Rng::for_case(self.seed, &prop, idx);
            f(self, idx, &mut rng);
            self.cases_done += 1;
            idx += self.nshards;
        }
    }

    /// Note what is about to run so that a crash or hang can be attributed (read by the driver)
    pub fn mark(&mut self, idx: u64, what: &str) {
        if let Some(file) = &mut self.cur {
            let line = format!("{:<20} {:<200}\n", idx, what);
            let _ = file.seek(SeekFrom::Start(0));
            let _ = file.write_all(line.as_bytes());
        }
    }

    /// One judged execution that held; `hash` identifies the case, `nontrivial` by the
    /// property's own rule
    pub fn ok(&mut self, hash: u64, nontrivial: bool) {
        self.evaluations += 1;
        self.held += 1;
        if nontrivial {
            self.hashes.insert(hash);
        }
    }

    pub fn inconclusive(&mut self, why: &str) {
        self.evaluations += 1;
        self.inconclusive += 1;
        *self.counters.entry(format!("inconclusive:{}", why)).or_insert(0) += 1;
    }

    pub fn dont_care(&mut self, why: &str) {
        self.evaluations += 1;
        self.dontcare += 1;
        *self.counters.entry(format!("dontcare:{}", why)).or_insert(0) += 1;
    }

    pub fn violation(&mut self, idx: u64, sig: &str, what: &str, detail: Value) {
        self.evaluations += 1;
        let is_known = self.known.iter().any(|k| k == sig);
        let keep = if is_known {
            self.violations.iter().filter(|v| v["signature"] == sig).count() < 2
        } else {
            self.unknown_violations += 1;
            self.unknown_violations <= self.max_violations
        };
        if keep {
            self.violations.push(json!({
                "property": self.prop,
                "idx": idx,
                "seed": self.seed,
                "tier": if self.quick() { "quick" } else { "thorough" },
                "signature": sig,
                "what": what,
                "detail": detail,
            }));
        }
        *self.counters.entry(format!("violation:{}", sig)).or_insert(0) += 1;
    }

    pub fn count(&mut self, name: &str, add: u64) {
        *self.counters.entry(name.to_string()).or_insert(0) += add;
    }

    pub fn max(&mut self, name: &str, value: f64) {
        let e = self.maxes.entry(name.to_string()).or_insert(f64::NEG_INFINITY);
        if value > *e {
            *e = value;
        }
    }

    pub fn sample(&mut self, limit: usize, v: impl FnOnce() -> Value) {
        if self.samples.len() < limit {
            self.samples.push(v());
        }
    }

    pub fn finish(&mut self, extra: Map<String, Value>) {
        let mut hashes: Vec<String> = self.hashes.iter().map(|h| format!("{:016x}", h)).collect();
        hashes.sort();
        let out = json!({
            "property": self.prop,
            "shard": self.shard,
            "evaluations": self.evaluations,
            "held": self.held,
            "inconclusive": self.inconclusive,
            "dontcare": self.dontcare,
            "violations": self.violations,
            "hashes": hashes,
            "counters": self.counters,
            "maxes": self.maxes.iter().map(|(k, v)| (k.clone(), crate::tree::fjson(*v))).collect::<Map<String, Value>>(),
            "samples": self.samples,
            "cases_done": self.cases_done,
            "stopped_early": self.stopped_early,
            "wall_s": self.start.elapsed().as_secs_f64(),
            "extra": extra,
        });
        let tmp = format!("{}.tmp", self.out_path);
        std::fs::write(&tmp, serde_json::to_vec(&out).unwrap()).unwrap();
        std::fs::rename(&tmp, &self.out_path).unwrap();
    }
}

pub fn extra(rule: &str, assumptions: &[&str]) -> Map<String, Value> {
    let mut m = Map::new();
    m.insert("rule".into(), json!(rule));
    m.insert("assumptions".into(), json!(assumptions));
    m
}

/// Run `f`, turning a panic into Err(message). The panic hook is silenced by main.
pub fn catch<T>(f: impl FnOnce() -> T) -> Result<T, String> {
    match std::panic::catch_unwind(std::panic::AssertUnwindSafe(f)) {
        Ok(v) => Ok(v),
        Err(e) => Err(if let Some(s) = e.downcast_ref::<String>() {
            s.clone()
        } else if let Some(s) = e.downcast_ref::<&str>() {
            s.to_string()
        } else {
            "panic".to_string()
        }),
    }
}

pub fn rel_close(a: f64, b: f64, tol: f64, scale: f64) -> bool {
    if a == b {
        return true;
    }
    if !a.is_finite() || !b.is_finite() {
        return false;
    }
    (a - b).abs() <= tol * scale.max(f64::MIN_POSITIVE)
}
