//! The harness' own game tree. Everything the oracles know about a game comes from here, never
//! from cfr's compact representation.
use cfr::{GameNode, IntoGameNode, PlayerNum};
use serde_json::{json, Value};
use std::collections::HashMap;

#[derive(Clone, Debug, PartialEq)]
pub enum HNode {
    Term(f64),
    Chance {
        info: Option<String>,
        outs: Vec<(f64, HNode)>,
    },
    Player {
        p: u8,
        info: String,
        acts: Vec<(String, HNode)>,
    },
}

impl IntoGameNode for HNode {
    type PlayerInfo = String;
    type Action = String;
    type ChanceInfo = String;
    type Outcomes = Vec<(f64, HNode)>;
    type Actions = Vec<(String, HNode)>;

    fn into_game_node(self) -> GameNode<Self> {
        match self {
            HNode::Term(pay) => GameNode::Terminal(pay),
            HNode::Chance { info, outs } => GameNode::Chance(info, outs),
            HNode::Player { p, info, acts } => GameNode::Player(
                if p == 0 {
                    PlayerNum::One
                } else {
                    PlayerNum::Two
                },
                info,
                acts,
            ),
        }
    }
}

pub fn pnum(p: usize) -> PlayerNum {
    if p == 0 {
        PlayerNum::One
    } else {
        PlayerNum::Two
    }
}

/// Which nodes a pass of a solver expands (for [HNode::frontier_tasks])
#[derive(Clone, Copy, PartialEq, Debug)]
pub enum Frontier {
    /// vanilla: every chance outcome and every action
    Full,
    /// chance sampled: one outcome per chance node
    Sampled,
    /// external sampling with the given player updating: one outcome per chance node and one
    /// action per node of the other player
    External(u8),
}

impl HNode {
    /// Replica of the level-wise frontier search of the parallel solvers (`thread_threshold`):
    /// the number of frontier nodes that are handed to the pool as tasks when the solver runs
    /// with `threads` workers (task target 3 x threads). Only the nodes still *unexpanded* on the
    /// current level when the target is reached become tasks, so a wide level that reaches the
    /// target in one step yields no tasks at all. A heuristic used to pick thread counts that
    /// make the solve parallel at all (which child a sampled node expands is not modelled, and the
    /// library may compress the tree); what ran in parallel is measured from the visit log.
    pub fn frontier_tasks(&self, mode: Frontier, threads: usize) -> usize {
        let target = threads.saturating_mul(3);
        let mut queue: Vec<&HNode> = vec![self];
        let mut work: Vec<&HNode> = Vec::new();
        while !(queue.is_empty() && work.is_empty()) && queue.len() + work.len() < target {
            match queue.pop() {
                None => std::mem::swap(&mut queue, &mut work),
                Some(HNode::Term(_)) => {}
                Some(HNode::Chance { outs, .. }) => {
                    let live = outs.iter().filter(|(w, _)| *w > 0.0).map(|(_, n)| n);
                    if mode == Frontier::Full {
                        work.extend(live);
                    } else {
                        work.extend(live.take(1));
                    }
                }
                Some(HNode::Player { p, acts, .. }) => match mode {
                    Frontier::External(active) if *p != active => work.extend(acts.iter().take(1).map(|(_, n)| n)),
                    _ => work.extend(acts.iter().map(|(_, n)| n)),
                },
            }
        }
        queue.len()
    }

    /// The thread count among `candidates` for which the (modelled) frontier has the most tasks,
    /// with that number of tasks. Ties go to the earlier candidate.
    pub fn best_threads(&self, modes: &[Frontier], candidates: &[usize]) -> (usize, usize) {
        let mut best = (candidates[0], 0usize);
        for &t in candidates {
            let tasks = modes.iter().map(|m| self.frontier_tasks(*m, t)).max().unwrap_or(0);
            if tasks > best.1 {
                best = (t, tasks);
            }
        }
        best
    }

    pub fn count_nodes(&self) -> usize {
        match self {
            HNode::Term(_) => 1,
            HNode::Chance { outs, .. } => 1 + outs.iter().map(|(_, n)| n.count_nodes()).sum::<usize>(),
            HNode::Player { acts, .. } => 1 + acts.iter().map(|(_, n)| n.count_nodes()).sum::<usize>(),
        }
    }

    pub fn depth(&self) -> usize {
        match self {
            HNode::Term(_) => 0,
            HNode::Chance { outs, .. } => 1 + outs.iter().map(|(_, n)| n.depth()).max().unwrap_or(0),
            HNode::Player { acts, .. } => 1 + acts.iter().map(|(_, n)| n.depth()).max().unwrap_or(0),
        }
    }

    pub fn to_json(&self) -> Value {
        // very deep trees are reported in brief: nested JSON thousands of levels deep cannot be read
        // back by ordinary JSON readers (the driver's included); replays regenerate the case anyway
        if self.depth() > 150 {
            return json!({ "deep_tree": self.brief(3000), "depth": self.depth(), "nodes": self.count_nodes() });
        }
        self.to_json_unbounded()
    }

    fn to_json_unbounded(&self) -> Value {
        match self {
            HNode::Term(p) => json!({ "t": fjson(*p) }),
            HNode::Chance { info, outs } => json!({
                "c": info,
                "o": outs.iter().map(|(w, n)| json!([fjson(*w), n.to_json_unbounded()])).collect::<Vec<_>>(),
            }),
            HNode::Player { p, info, acts } => json!({
                "p": p + 1,
                "i": info,
                "a": acts.iter().map(|(a, n)| json!([a, n.to_json_unbounded()])).collect::<Vec<_>>(),
            }),
        }
    }

    /// compact one line rendering used in evidence samples (truncated)
    pub fn brief(&self, limit: usize) -> String {
        let mut s = String::new();
        self.brief_into(&mut s, limit);
        if s.len() > limit {
            let mut cut = limit;
            while !s.is_char_boundary(cut) {
                cut -= 1;
            }
            s.truncate(cut);
            s.push_str("...");
        }
        s
    }

    fn brief_into(&self, s: &mut String, limit: usize) {
        if s.len() > limit {
            return;
        }
        match self {
            HNode::Term(p) => s.push_str(&format!("{}", p)),
            HNode::Chance { info, outs } => {
                s.push_str(&format!("C[{}](", info.as_deref().unwrap_or("-")));
                for (i, (w, n)) in outs.iter().enumerate() {
                    if i > 0 {
                        s.push(' ');
                    }
                    s.push_str(&format!("{}:", w));
                    n.brief_into(s, limit);
                }
                s.push(')');
            }
            HNode::Player { p, info, acts } => {
                s.push_str(&format!("P{}[{}](", p + 1, info));
                for (i, (a, n)) in acts.iter().enumerate() {
                    if i > 0 {
                        s.push(' ');
                    }
                    s.push_str(&format!("{}:", a));
                    n.brief_into(s, limit);
                }
                s.push(')');
            }
        }
    }

    pub fn structural_hash(&self) -> u64 {
        use crate::rng::{hash_str, mix};
        match self {
            HNode::Term(p) => mix(p.to_bits() ^ 0x11),
            HNode::Chance { info, outs } => {
                let mut h = mix(0x22 ^ info.as_deref().map_or(7, hash_str));
                for (w, n) in outs {
                    h = mix(h ^ w.to_bits()).wrapping_add(mix(n.structural_hash() ^ h));
                    h = mix(h);
                }
                h
            }
            HNode::Player { p, info, acts } => {
                let mut h = mix(0x33 ^ (*p as u64) ^ hash_str(info));
                for (a, n) in acts {
                    h = mix(h ^ hash_str(a)).wrapping_add(mix(n.structural_hash() ^ h));
                    h = mix(h);
                }
                h
            }
        }
    }
}

/// JSON cannot carry NaN/inf; write those as strings
pub fn fjson(x: f64) -> Value {
    if x.is_finite() {
        json!(x)
    } else {
        json!(format!("{}", x))
    }
}

/// Flattened *valid* game: indices instead of names, single-child nodes kept as they are.
#[derive(Clone, Debug)]
pub struct Flat {
    pub nodes: Vec<FNode>,
    /// per player: infoset names in first-seen (preorder) order; includes single-action infosets
    pub info_names: [Vec<String>; 2],
    /// per player per infoset: action names
    pub info_actions: [Vec<Vec<String>>; 2],
    /// per player per infoset: node ids
    pub info_nodes: [Vec<Vec<usize>>; 2],
    /// chance infoset names (None = unique)
    pub chance_names: Vec<Option<String>>,
    pub chance_probs: Vec<Vec<f64>>,
    pub chance_nodes: Vec<Vec<usize>>,
    pub name_to_info: [HashMap<String, usize>; 2],
}

#[derive(Clone, Debug)]
pub enum FNode {
    Term(f64),
    /// chance infoset id, children
    Chance(usize, Vec<usize>),
    /// player, infoset id, children
    Player(usize, usize, Vec<usize>),
}

impl Flat {
    /// Flatten. Assumes the tree is valid for naming purposes (same infoset => same action
    /// list); chance probabilities are normalised per node, the first node of a chance infoset
    /// defines its probabilities.
    pub fn new(root: &HNode) -> Flat {
        let mut flat = Flat {
            nodes: Vec::new(),
            info_names: Default::default(),
            info_actions: Default::default(),
            info_nodes: Default::default(),
            chance_names: Vec::new(),
            chance_probs: Vec::new(),
            chance_nodes: Vec::new(),
            name_to_info: Default::default(),
        };
        let mut chance_map: HashMap<String, usize> = HashMap::new();
        flat.add(root, &mut chance_map);
        flat
    }

    fn add(&mut self, node: &HNode, chance_map: &mut HashMap<String, usize>) -> usize {
        let id = self.nodes.len();
        self.nodes.push(FNode::Term(0.0));
        let built = match node {
            HNode::Term(p) => FNode::Term(*p),
            HNode::Chance { info, outs } => {
                // probabilities proportional to the weights; weights near the top of the range
                // are scaled down first (their sum would overflow)
                let total: f64 = outs.iter().map(|(w, _)| w).sum();
                let probs: Vec<f64> = if total.is_finite() {
                    outs.iter().map(|(w, _)| w / total).collect()
                } else {
                    let down = 2.0 * outs.len() as f64;
                    let t2: f64 = outs.iter().map(|(w, _)| w / down).sum();
                    outs.iter().map(|(w, _)| (w / down) / t2).collect()
                };
                // single-outcome chance nodes never share (cfr drops them before looking at
                // their infoset); give them a private id
                let cid = match info {
                    Some(name) if outs.len() > 1 => {
                        if let Some(&cid) = chance_map.get(name) {
                            cid
                        } else {
                            let cid = self.chance_names.len();
                            chance_map.insert(name.clone(), cid);
                            self.chance_names.push(Some(name.clone()));
                            self.chance_probs.push(probs);
                            self.chance_nodes.push(Vec::new());
                            cid
                        }
                    }
                    _ => {
                        let cid = self.chance_names.len();
                        self.chance_names.push(None);
                        self.chance_probs.push(probs);
                        self.chance_nodes.push(Vec::new());
                        cid
                    }
                };
                self.chance_nodes[cid].push(id);
                let kids = outs.iter().map(|(_, n)| self.add(n, chance_map)).collect();
                FNode::Chance(cid, kids)
            }
            HNode::Player { p, info, acts } => {
                let p = *p as usize;
                let iid = if let Some(&iid) = self.name_to_info[p].get(info) {
                    iid
                } else {
                    let iid = self.info_names[p].len();
                    self.name_to_info[p].insert(info.clone(), iid);
                    self.info_names[p].push(info.clone());
                    self.info_actions[p].push(acts.iter().map(|(a, _)| a.clone()).collect());
                    self.info_nodes[p].push(Vec::new());
                    iid
                };
                self.info_nodes[p][iid].push(id);
                let kids = acts.iter().map(|(_, n)| self.add(n, chance_map)).collect();
                FNode::Player(p, iid, kids)
            }
        };
        self.nodes[id] = built;
        id
    }

    pub fn num_actions(&self, p: usize, info: usize) -> usize {
        self.info_actions[p][info].len()
    }

    /// number of multi-action infosets of both players
    pub fn num_decision_infosets(&self) -> usize {
        (0..2)
            .map(|p| self.info_actions[p].iter().filter(|a| a.len() > 1).count())
            .sum()
    }

    pub fn max_actions(&self) -> usize {
        (0..2)
            .flat_map(|p| self.info_actions[p].iter().map(|a| a.len()))
            .max()
            .unwrap_or(1)
            .max(1)
    }

    pub fn payoff_range(&self) -> f64 {
        let mut lo = f64::INFINITY;
        let mut hi = f64::NEG_INFINITY;
        for n in &self.nodes {
            if let FNode::Term(p) = n {
                lo = lo.min(*p);
                hi = hi.max(*p);
            }
        }
        hi - lo
    }

    /// Scale for "within rounding" judgements of utilities, regrets and bounds: the smaller of
    /// max |payoff| and the sum over terminals of (chance reach x |payoff|). Every utility,
    /// counterfactual value and regret of the game is a sum of terms reach x payoff with player
    /// reaches <= 1, so its magnitude - and the rounding error of computing it in any order - is
    /// bounded by the second quantity; on ordinary games the first is the smaller one. The two
    /// differ when a payoff of order 1/p sits behind a chance outcome of probability p: max |payoff|
    /// then says nothing about the size of the numbers the game is about.
    pub fn effective_scale(&self) -> f64 {
        fn walk(f: &Flat, n: usize, reach: f64, acc: &mut f64) {
            match &f.nodes[n] {
                FNode::Term(p) => *acc += reach * p.abs(),
                FNode::Chance(ci, kids) => {
                    for (k, c) in kids.iter().enumerate() {
                        walk(f, *c, reach * f.chance_probs[*ci][k], acc);
                    }
                }
                FNode::Player(_, _, kids) => {
                    for c in kids {
                        walk(f, *c, reach, acc);
                    }
                }
            }
        }
        let mut acc = 0.0;
        if !self.nodes.is_empty() {
            walk(self, 0, 1.0, &mut acc);
        }
        let m = self.max_abs_payoff();
        if acc.is_finite() && acc < m {
            acc
        } else {
            m
        }
    }

    pub fn max_abs_payoff(&self) -> f64 {
        self.nodes
            .iter()
            .map(|n| if let FNode::Term(p) = n { p.abs() } else { 0.0 })
            .fold(0.0, f64::max)
    }
}

/// A behavioural strategy profile on a Flat game: per player per infoset a probability vector.
pub type Profile = [Vec<Vec<f64>>; 2];

pub fn uniform_profile(flat: &Flat) -> Profile {
    let mk = |p: usize| {
        flat.info_actions[p]
            .iter()
            .map(|a| vec![1.0 / a.len() as f64; a.len()])
            .collect()
    };
    [mk(0), mk(1)]
}

pub type Named = Vec<(String, Vec<(String, f64)>)>;

/// The named form of a profile as `from_named` wants it
pub fn profile_to_named(flat: &Flat, prof: &Profile) -> [Named; 2] {
    let mk = |p: usize| {
        flat.info_names[p]
            .iter()
            .enumerate()
            .map(|(i, name)| {
                (
                    name.clone(),
                    flat.info_actions[p][i]
                        .iter()
                        .cloned()
                        .zip(prof[p][i].iter().copied())
                        .collect(),
                )
            })
            .collect()
    };
    [mk(0), mk(1)]
}

/// Read a cfr named strategy into a Profile. Missing actions get 0, returns Err on unknown names
/// or duplicates.
pub fn named_to_profile<'a, I, A>(flat: &Flat, named: [I; 2]) -> Result<Profile, String>
where
    I: IntoIterator<Item = (&'a String, A)>,
    A: IntoIterator<Item = (&'a String, f64)>,
{
    let mut out: Profile = [
        flat.info_actions[0].iter().map(|a| vec![0.0; a.len()]).collect(),
        flat.info_actions[1].iter().map(|a| vec![0.0; a.len()]).collect(),
    ];
    for (p, strat) in named.into_iter().enumerate() {
        let mut seen = vec![false; flat.info_names[p].len()];
        for (info, acts) in strat {
            let iid = *flat.name_to_info[p]
                .get(info)
                .ok_or_else(|| format!("unknown infoset {:?} for player {}", info, p + 1))?;
            if seen[iid] {
                return Err(format!("infoset {:?} listed twice for player {}", info, p + 1));
            }
            seen[iid] = true;
            for (act, prob) in acts {
                let aid = flat.info_actions[p][iid]
                    .iter()
                    .position(|a| a == act)
                    .ok_or_else(|| format!("unknown action {:?} in infoset {:?}", act, info))?;
                out[p][iid][aid] = prob;
            }
        }
        if let Some(missing) = seen.iter().position(|s| !s) {
            return Err(format!(
                "infoset {:?} of player {} missing",
                flat.info_names[p][missing],
                p + 1
            ));
        }
    }
    Ok(out)
}

/// The same named listing with some infosets split over two entries and the entries shuffled
/// (legal for the importers: no restriction on order or repetition; entries of one infoset merge)
pub fn split_named(rng: &mut crate::rng::Rng, named: Named) -> Named {
    let mut out: Named = Vec::new();
    for (info, acts) in named {
        if acts.len() >= 2 && rng.chance(0.6) {
            let cut = rng.range(1, acts.len() - 1);
            out.push((info.clone(), acts[..cut].to_vec()));
            out.push((info, acts[cut..].to_vec()));
        } else {
            out.push((info, acts));
        }
    }
    rng.shuffle(&mut out);
    out
}
