//! Workload for `cargo +nightly miri run --bin miri_work -- <C05|C06|C07> <seed> <cases>`.
//!
//! Miri is used as a *schedule explorer with a deadlock / data-race / panic oracle*: its
//! scheduler is seeded and preemptive (-Zmiri-seed, -Zmiri-preemption-rate), so every Miri seed
//! gives a different, replayable interleaving of the rayon tasks of the parallel solvers. On top
//! of Miri's own reports (deadlock, data race, UB, panic = abnormal exit) the same monitors as in
//! the native checks judge every run: well-formedness of the dense result, the O3 step checker
//! with the exactly-once visit monitor and the one-draw-per-infoset-per-pass monitor, and the
//! 1-thread vs k-thread differential.
//!
//! Output: one JSON object per case on stdout, then `MIRI-DONE ...`. Exit status 1 iff a monitor
//! saw a violation (Miri's own findings make the interpreter exit non-zero by itself).
use cfr::verif::{Config, Sampling};
use cfr::SolveMethod;
use serde_json::json;
use vh::gen::{self, ParamSpec};
use vh::rng::{mix, Rng};
use vh::solve::{self, Cfg, Outcome, Prepared};

/// Small games for the interpreter. The frontier search of the parallel solvers hands only the
/// still unexpanded nodes of the level on which the task target (3 x threads) is reached to the
/// pool, so every shape here is sized against the thread count it is run with (returned), and
/// random games are kept only if the modelled frontier has at least two tasks.
fn small_game(rng: &mut Rng, case: u64, only: &str, prop: &str, methods: &[SolveMethod]) -> (String, vh::tree::HNode, Option<usize>) {
    let only_wmf = only == "wmf";
    // which special shapes make sense depends on the methods of the property
    let fan_slot = match prop {
        "C07" => case % 4 >= 2,
        "C05" => case % 4 == 3,
        _ => false,
    };
    if (fan_slot && only.is_empty()) || only == "fan" {
        // every frontier task draws at one shared chance infoset and one opponent infoset below it
        let t = *rng.pick(&[2usize, 2, 3]);
        let k = 3 * t - 1;
        return (format!("shared_chance_fan_below(k={})", k), gen::shared_chance_fan_below(rng, k, true), Some(t));
    }
    if case % 4 == 2 || only_wmf {
        // lock-ordering shape: each player's single infoset lies above the other's on some paths
        // and below it on others. m < 3 x threads outcomes, so that the frontier search goes one
        // level further and leaves most of the m subtrees as tasks
        let t = *rng.pick(&[2usize, 3]);
        let m = 3 * t - 1;
        return (format!("who_moves_first(outcomes={},actions=2)", m), gen::who_moves_first(rng, m, 2), Some(t));
    }
    if case % 4 == 3 {
        // distinct nodes of one infoset with identical continuations
        let c = rng.range(2, 4);
        return (format!("hidden_irrelevant_move(subgames={})", c), gen::hidden_irrelevant_move(rng, c), None);
    }
    let modes: Vec<vh::tree::Frontier> = methods.iter().flat_map(|m| solve::frontier_modes(*m).iter().copied()).collect();
    if case % 4 == 1 {
        // contention shape: every move hidden, so one infoset sits below several frontier nodes
        for _ in 0..200 {
            let mut par = gen::GenParams::random(rng, 0);
            par.hide_rate = 1.0;
            par.tick_rate = 0.0;
            par.p_chance = *rng.pick(&[0.1, 0.25, 0.4]);
            par.p_shared_chance = 1.0;
            par.p_term = 0.0;
            par.max_actions = rng.range(2, 3);
            par.max_depth = rng.range(2, 3);
            par.node_budget = rng.range(12, 36);
            let t = gen::random_tree(rng, &par);
            let n = t.count_nodes();
            if (10..=40).contains(&n) && t.best_threads(&modes, &[2, 3, 4]).1 >= 2 {
                return (format!("g1-contention(depth<={},budget={})", par.max_depth, par.node_budget), t, None);
            }
        }
    }
    for _ in 0..400 {
        let (d, t) = gen::any_game(rng, 0);
        let n = t.count_nodes();
        if (10..=36).contains(&n) && vh::tree::Flat::new(&t).num_decision_infosets() >= 2 && t.best_threads(&modes, &[2, 3, 4]).1 >= 2 {
            return (d, t, None);
        }
    }
    ("who_moves_first(outcomes=5,actions=2)".into(), gen::who_moves_first(rng, 5, 2), Some(2))
}

fn main() {
    let args: Vec<String> = std::env::args().collect();
    if args.len() < 4 {
        eprintln!("usage: miri_work <C05|C06|C07> <seed> <cases>");
        std::process::exit(2);
    }
    let prop = args[1].clone();
    let seed: u64 = args[2].parse().expect("seed");
    let cases: u64 = args[3].parse().expect("cases");
    let methods: &[SolveMethod] = match prop.as_str() {
        "C06" => &[SolveMethod::Full],
        "C07" => &[SolveMethod::Sampled, SolveMethod::External],
        _ => &[SolveMethod::Full, SolveMethod::Sampled, SolveMethod::External, SolveMethod::External],
    };
    std::panic::set_hook(Box::new(|_| {}));
    let mut bad = 0u64;
    let (mut held, mut inconclusive, mut visits, mut draws) = (0u64, 0u64, 0u64, 0u64);
    for case in 0..cases {
        let mut rng = Rng::for_case(seed, &format!("miri-{}", prop), case);
        let (desc, tree, sized_for) = small_game(&mut rng, case, args.get(4).map(|s| s.as_str()).unwrap_or(""), &prop, methods);
        let prep = match Prepared::new(&tree) {
            Ok(p) => p,
            Err(e) => {
                println!("{}", json!({"case": case, "verdict": "inconclusive", "why": format!("prepare: {}", e)}));
                inconclusive += 1;
                continue;
            }
        };
        let mut method = *rng.pick(methods);
        if desc.starts_with("shared_chance_fan") && methods.contains(&SolveMethod::External) && rng.chance(0.7) {
            // the shared chance infoset and the blind opponent infoset are met by every task of an
            // external-sampling pass
            method = SolveMethod::External;
        }
        if desc.starts_with("who_moves_first") && methods.contains(&SolveMethod::Full) {
            // a sampled chance root selects one subtree per pass, so both move orders never meet
            method = SolveMethod::Full;
        }
        let params = if rng.chance(0.7) { ParamSpec::random(&mut rng) } else { ParamSpec::random_custom(&mut rng) };
        let iters = *rng.pick(&[1u64, 2, 2, 3]);
        if sized_for.is_none() && tree.best_threads(solve::frontier_modes(method), &[2, 3, 4]).1 < 2 {
            // prefer a method of this property whose frontier has tasks on this game
            if let Some(m) = methods.iter().copied().max_by_key(|m| tree.best_threads(solve::frontier_modes(*m), &[2, 3, 4]).1) {
                method = m;
            }
        }
        // the thread count the shape was sized for, else the one with the most modelled frontier tasks
        let (best_t, modelled_tasks) = tree.best_threads(solve::frontier_modes(method), &[2, 3, 4]);
        let threads = sized_for.unwrap_or(if modelled_tasks >= 2 { best_t } else { *rng.pick(&[2usize, 2, 3]) });
        let modelled_tasks = solve::frontier_modes(method).iter().map(|m| tree.frontier_tasks(*m, threads)).max().unwrap_or(0);
        let sseed = rng.next();
        let sampling = move || if method == SolveMethod::Full { Sampling::Production } else { Sampling::Seeded(sseed) };
        let base_cfg = Cfg { method, iters, max_reg: 0.0, threads: 1, params };
        let cfg = Cfg { threads, ..base_cfg };
        let mut verdict = "held";
        let mut sig = String::new();
        let mut what = String::new();
        let mut sched = 0u64;
        let mut threads_seen: Vec<usize> = Vec::new();
        let base = solve::run(&prep, &base_cfg, Some(Config { flags: solve::ALL_LOGS, sampling: sampling(), jitter_seed: 0 }));
        // jitter on: under Miri every jitter site is a yield, i.e. a point where the interpreter's
        // seeded scheduler may switch threads (also while an infoset lock is held)
        let jitter = if args.iter().any(|a| a == "nojitter") { 0 } else { cfr::verif::JITTER };
        let multi = solve::run(&prep, &cfg, Some(Config { flags: solve::ALL_LOGS | jitter, sampling: sampling(), jitter_seed: rng.next() }));
        match (base, multi) {
            (_, Outcome::Panic(m)) => {
                verdict = "violation";
                sig = format!("{}:miri:panic:{}", prop, gen::method_name(method));
                what = format!("{} panicked: {}", cfg.describe(), m);
            }
            (Outcome::Ok(b), Outcome::Ok(o)) => {
                for e in &o.events {
                    if let cfr::verif::Event::Visit { node, thread, pass, .. } = e {
                        sched = mix(sched ^ (*node as u64) ^ ((*thread as u64) << 52) ^ (*pass << 40));
                        if !threads_seen.contains(thread) {
                            threads_seen.push(*thread);
                        }
                    }
                }
                if let Err((s, m)) = vh::props::c05::well_formed(&o, if iters == 0 { 0 } else { 1 }) {
                    verdict = "violation";
                    sig = format!("{}:miri:{}", prop, s);
                    what = format!("{}: {}", cfg.describe(), m);
                } else {
                    match (solve::step_check(&prep, &base_cfg, &b, true), solve::step_check(&prep, &cfg, &o, true)) {
                        (Ok(sb), Ok(so)) => {
                            visits += so.visits_checked;
                            draws += so.draws_checked;
                            if solve::same_within(&o, &b, 1e-9, prep.flat.max_abs_payoff()).is_some() {
                                let margin = so.min_margin.min(sb.min_margin);
                                let (diff, _) = solve::same_within_cond(&o, &b, &so, &sb, prep.flat.max_abs_payoff(), 1.0);
                                if margin < 1e-9 {
                                    verdict = "inconclusive";
                                    what = "outputs differ but a trace passed within 1e-9 of a regret-matching discontinuity".into();
                                } else if diff.is_some() && solve::smooth_divergence(&o, &b, prep.flat.max_abs_payoff(), 100.0).is_some() {
                                    verdict = "inconclusive";
                                    what = "outputs differ but the difference grows smoothly out of rounding noise over the snapshots".into();
                                } else if let Some(d) = diff {
                                    verdict = "violation";
                                    sig = format!("{}:miri:differs-from-single-thread:{}", prop, gen::method_name(method));
                                    what = format!("{} differs from one thread: {}", cfg.describe(), d);
                                }
                            }
                        }
                        (Err(_), _) => {
                            verdict = "inconclusive";
                            what = "single-thread trace rejected (see C08)".into();
                        }
                        (_, Err((s, m))) => {
                            verdict = "violation";
                            sig = format!("{}:miri:trace:{}:{}", prop, s, gen::method_name(method));
                            what = format!("{} [{}]", m, cfg.describe());
                        }
                    }
                }
            }
            (Outcome::Panic(m), _) => {
                verdict = "violation";
                sig = format!("{}:miri:panic:single", prop);
                what = format!("{} panicked: {}", base_cfg.describe(), m);
            }
            _ => {
                verdict = "inconclusive";
                what = "solve returned an error (thread spawn)".into();
            }
        }
        match verdict {
            "held" => held += 1,
            "inconclusive" => inconclusive += 1,
            _ => bad += 1,
        }
        println!(
            "{}",
            json!({"case": case, "verdict": verdict, "threads_that_processed_nodes": threads_seen.len(), "modelled_frontier_tasks": modelled_tasks, "signature": sig, "what": what, "cfg": cfg.describe(), "desc": desc, "nodes": prep.flat.nodes.len(),
                   "schedule_hash": format!("{:016x}", sched), "tree_hash": format!("{:016x}", tree.structural_hash()),
                   "game": if verdict == "violation" { tree.to_json() } else { json!(tree.brief(80)) }})
        );
    }
    println!("MIRI-DONE prop={} seed={} cases={} held={} inconclusive={} violations={} visits_checked={} draws_checked={}", prop, seed, cases, held, inconclusive, bad, visits, draws);
    std::process::exit(if bad > 0 { 1 } else { 0 });
}
