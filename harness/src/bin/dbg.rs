use cfr::verif::{Config, Event, Sampling};
use vh::gen::{self, ParamSpec};
use vh::solve::{self, Cfg, Outcome, Prepared};

fn main() {
    let k: usize = std::env::args().nth(1).unwrap().parse().unwrap();
    let tree = gen::kuhn(5, false);
    let prep = Prepared::new(&tree).unwrap();
    let mut first: Option<Vec<Event>> = None;
    for threads in [1usize, k] {
        let cfg = Cfg { method: cfr::SolveMethod::Full, iters: 3, max_reg: 0.0, threads, params: ParamSpec::Dcfr };
        let out = match solve::run(&prep, &cfg, Some(Config { flags: solve::ALL_LOGS, sampling: Sampling::Production, jitter_seed: 0 })) {
            Outcome::Ok(o) => o,
            _ => panic!(),
        };
        let chk = solve::step_check(&prep, &cfg, &out, true);
        print!("threads {} check {:?} bounds:", threads, chk.as_ref().map(|s| s.passes).map_err(|e| e.0.clone()));
        for e in &out.events {
            if let Event::Bound { pass, regs } = e {
                print!(" p{}={:?}", pass, regs);
            }
        }
        println!();
        if let Some(f) = &first {
            for (a, b) in f.iter().zip(out.events.iter().filter(|e| matches!(e, Event::State { .. }))) {
                if let (Event::State { pass, stage, player, infosets: ia }, Event::State { infosets: ib, .. }) = (a, b) {
                    for (i, (x, y)) in ia.iter().zip(ib.iter()).enumerate() {
                        if x != y {
                            println!("DIFF pass {} stage {} player {} infoset {}:\n  1: {:?}\n  k: {:?}", pass, stage, player, i, x, y);
                        }
                    }
                }
            }
        } else {
            first = Some(out.events.iter().filter(|e| matches!(e, Event::State { .. })).cloned().collect());
        }
        let out_events: Vec<Event> = out.events.iter().filter(|e| matches!(e, Event::State { .. })).cloned().collect();
        let _ = out_events;
        // first infoset state per pass

    }
}
