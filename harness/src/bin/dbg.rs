use vh::gen::{player, term, ParamSpec};
use vh::solve::{self, Cfg, Outcome, Prepared};
use cfr::verif::{Config, Sampling};

fn game(c: f64) -> vh::tree::HNode {
    let y = |v: [f64; 4]| player(1, "y0", (0..4).map(|i| (format!("a{}", i), term(v[i] * c))).collect());
    player(0, "x0", vec![("a0".into(), y([0.0, 1.0, -1.0, 1.0])), ("a1".into(), term(-1.0 * c)), ("a2".into(), y([1.0, -1.0, 1.0, 0.0]))])
}

fn main() {
    let cfg = Cfg { method: cfr::SolveMethod::Full, iters: 6, max_reg: 0.0, threads: 1, params: ParamSpec::None };
    for c in [1.0, 3.0] {
        let prep = Prepared::new(&game(c)).unwrap();
        let hook = Some(Config { flags: solve::ALL_LOGS, sampling: Sampling::Production, jitter_seed: 0 });
        if let Outcome::Ok(out) = solve::run(&prep, &cfg, hook) {
            println!("c={} bounds {:?}", c, out.bounds);
            for e in &out.events {
                if let cfr::verif::Event::State { pass, stage, player, infosets } = e {
                    for (i, s) in infosets.iter().enumerate() {
                        println!("  pass {} stage {} P{} info {} R {:?} S {:?} sigma {:?}", pass, stage, player + 1, i, s.cum_regret.iter().map(|x| x / c).collect::<Vec<_>>(), s.cum_strat, s.strat);
                    }
                }
            }
            println!("{:?}", solve::step_check(&prep, &cfg, &out, true).map(|s| s.min_margin));
        }
    }
}
