use vh::gen::{self, chance, player, term, ParamSpec};
use vh::solve::{self, Cfg, Outcome, Prepared};

fn main() {
    // the same chance infoset twice on one path: by the declared weights HH,HT,TH,TT have 1/4 each
    let leaf = |x: f64| player(0, format!("d{}", x), vec![("l".into(), player(1, "g", vec![("a".into(), term(x)), ("b".into(), term(-x))])), ("r".into(), term(0.1 * x))]);
    let inner = |a: f64, b: f64| chance(Some("c".into()), vec![(1.0, leaf(a)), (1.0, leaf(b))]);
    let tree = chance(Some("c".into()), vec![(1.0, inner(1.0, -3.0)), (1.0, inner(-2.0, 0.5))]);
    let prep = Prepared::new(&tree).unwrap();
    for m in gen::METHODS {
        for t in [100u64, 1000, 10000] {
            let cfg = Cfg { method: m, iters: t, max_reg: 0.0, threads: 1, params: ParamSpec::Dcfr };
            if let Outcome::Ok(out) = solve::run(&prep, &cfg, None) {
                let ev = vh::oracle::evaluate(&prep.flat, &out.profile);
                println!("{} T={} true regret {:.5} bound {:.5}", gen::method_name(m), t, ev.total(), out.total_bound);
            }
        }
    }
}
