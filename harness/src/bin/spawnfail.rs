//! Fault injection for C05: `Game::solve` at a moment when the process cannot create threads.
//!
//! usage: spawnfail <seed>
//!
//! The documented contract: solve never panics; with more than one thread (or the automatic
//! count 0) it may return `ThreadSpawnError`; with one thread it never errs. Thread creation is
//! made to fail by lowering the soft address-space limit (RLIMIT_AS) of this process to just
//! above its current size, so that the stack of a new thread cannot be mapped. The ground truth
//! is established here (a plain std::thread spawn fails while the limit is in place and works
//! again afterwards); if the fault cannot be produced the run is inconclusive.
//!
//! This runs in its own short-lived process: glibc caches the stacks of finished threads (a
//! long-lived worker that has solved with threads before would not see the fault), and an
//! allocation failure under the limit aborts the process, which the driver must be able to tell
//! from a verdict. Output: one line `SPAWNFAIL-HELD ...`, `SPAWNFAIL-INCONCLUSIVE ...` or
//! `SPAWNFAIL-VIOLATION <signature> <what>`; exit status 1 only for a violation.
use cfr::{PlayerNum, SolveMethod};
use std::panic::{catch_unwind, AssertUnwindSafe};
use vh::gen::{self, ParamSpec};
use vh::rng::Rng;

#[repr(C)]
struct RLimit {
    cur: u64,
    max: u64,
}

extern "C" {
    fn getrlimit(resource: i32, rlim: *mut RLimit) -> i32;
    fn setrlimit(resource: i32, rlim: *const RLimit) -> i32;
}

const RLIMIT_AS: i32 = 9;

fn vm_size_bytes() -> Option<u64> {
    let s = std::fs::read_to_string("/proc/self/statm").ok()?;
    let pages: u64 = s.split_whitespace().next()?.parse().ok()?;
    Some(pages * 4096)
}

fn can_spawn() -> bool {
    std::thread::Builder::new().spawn(|| {}).map(|h| h.join().is_ok()).unwrap_or(false)
}

fn main() {
    let seed: u64 = std::env::args().nth(1).and_then(|s| s.parse().ok()).unwrap_or(1);
    std::panic::set_hook(Box::new(|_| {}));
    let mut rng = Rng::for_case(seed, "spawnfail", 0);
    // everything that allocates much happens before the limit is lowered
    let (desc, tree) = match rng.below(4) {
        0 => ("kuhn3".to_string(), gen::kuhn(3, true)),
        1 => ("matching_pennies".to_string(), gen::matching_pennies()),
        2 => ("mini_leduc".to_string(), gen::mini_leduc()),
        _ => ("trivial".to_string(), gen::term(1.0)),
    };
    let game = match vh::bridge::build(&tree) {
        Ok(g) => g,
        Err(_) => {
            println!("SPAWNFAIL-INCONCLUSIVE game-rejected");
            return;
        }
    };
    let params = *rng.pick(&[ParamSpec::None, ParamSpec::Vanilla, ParamSpec::CfrPlus]);
    let iters = *rng.pick(&[1u64, 5, 20]);
    let mut lines: Vec<String> = Vec::with_capacity(64);
    let mut old = RLimit { cur: 0, max: 0 };
    let Some(vm) = vm_size_bytes() else {
        println!("SPAWNFAIL-INCONCLUSIVE no-procfs");
        return;
    };
    // SAFETY: plain libc calls with valid pointers to a repr(C) struct
    if unsafe { getrlimit(RLIMIT_AS, &mut old) } != 0 {
        println!("SPAWNFAIL-INCONCLUSIVE getrlimit-failed");
        return;
    }
    let low = RLimit { cur: vm + (1 << 20), max: old.max };
    if unsafe { setrlimit(RLIMIT_AS, &low) } != 0 {
        println!("SPAWNFAIL-INCONCLUSIVE setrlimit-failed");
        return;
    }
    let exhausted = !can_spawn();
    let mut violation: Option<(String, String)> = None;
    let mut observed_errors = 0u32;
    let mut observed_ok = 0u32;
    if exhausted {
        for method in gen::METHODS {
            for threads in [0usize, 2, 4, 1] {
                let r = catch_unwind(AssertUnwindSafe(|| game.solve(method, iters, 0.0, threads, params.to_params())));
                match r {
                    Err(_) => {
                        violation = Some((
                            format!("C05:fault:panic-when-threads-cannot-be-spawned:threads={}", if threads == 0 { "auto".to_string() } else { threads.to_string() }),
                            format!("solve({}, {}, 0, {}, {}) panicked while the process could not create threads (a ThreadSpawnError is the documented answer) on {}", gen::method_name(method), iters, threads, params.name(), desc),
                        ));
                    }
                    Ok(Err(e)) => {
                        let kind = format!("{:?}", e);
                        observed_errors += 1;
                        if threads == 1 {
                            violation = Some(("C05:fault:error-with-one-thread".into(), format!("solve with one thread returned {:?} while threads could not be spawned on {}", e, desc)));
                        } else if kind != "ThreadSpawnError" {
                            violation = Some(("C05:fault:wrong-error-kind".into(), format!("solve({} threads) returned {:?}, expected ThreadSpawnError, on {}", threads, e, desc)));
                        }
                    }
                    Ok(Ok((strat, bound))) => {
                        observed_ok += 1;
                        let fine = bound.player_regret_bound(PlayerNum::One) >= 0.0 && bound.player_regret_bound(PlayerNum::Two) >= 0.0 && strat.verif_probs().iter().all(|v| v.iter().all(|p| p.is_finite() && *p >= 0.0));
                        if !fine {
                            violation = Some(("C05:fault:malformed-result".into(), format!("solve({} threads) returned a malformed result while threads could not be spawned on {}", threads, desc)));
                        }
                    }
                }
                if violation.is_some() {
                    break;
                }
            }
            if violation.is_some() {
                break;
            }
        }
    }
    // lift the limit again
    unsafe { setrlimit(RLIMIT_AS, &old) };
    if !exhausted {
        println!("SPAWNFAIL-INCONCLUSIVE could-not-make-thread-creation-fail");
        return;
    }
    if violation.is_none() {
        if !can_spawn() {
            println!("SPAWNFAIL-INCONCLUSIVE threads-still-unavailable-after-lifting-the-limit");
            return;
        }
        for method in gen::METHODS {
            let r = catch_unwind(AssertUnwindSafe(|| game.solve(method, iters, 0.0, 0, params.to_params())));
            match r {
                Ok(Ok(_)) => {}
                Ok(Err(e)) => violation = Some(("C05:fault:no-recovery-after-spawn-failure".into(), format!("after thread creation works again solve({}, threads=auto) still returns {:?} on {}", gen::method_name(method), e, desc))),
                Err(_) => violation = Some(("C05:fault:no-recovery-after-spawn-failure".into(), format!("after thread creation works again solve({}, threads=auto) panics on {}", gen::method_name(method), desc))),
            }
        }
    }
    lines.push(match violation {
        Some((sig, what)) => format!("SPAWNFAIL-VIOLATION {} {}", sig, what),
        None => format!("SPAWNFAIL-HELD game={} iters={} params={} spawn_errors_returned={} ok_results={}", desc, iters, params.name(), observed_errors, observed_ok),
    });
    let bad = lines.iter().any(|l| l.starts_with("SPAWNFAIL-VIOLATION"));
    for l in lines {
        println!("{}", l);
    }
    std::process::exit(if bad { 1 } else { 0 });
}
