use std::collections::HashMap;
use vh::report::{Ctx, Tier};

fn main() {
    let args: Vec<String> = std::env::args().collect();
    if args.len() < 3 || args[1] != "run" {
        eprintln!("usage: vh run <ID> --tier quick|thorough --seed N --shard I --nshards N --out FILE [--only IDX] [--budget SECONDS] [--cli PATH] [--scratch DIR]");
        std::process::exit(2);
    }
    let prop = args[2].clone();
    let mut opts: HashMap<String, String> = HashMap::new();
    let mut i = 3;
    while i + 1 < args.len() {
        opts.insert(args[i].trim_start_matches("--").to_string(), args[i + 1].clone());
        i += 2;
    }
    let get = |k: &str, d: &str| opts.get(k).cloned().unwrap_or_else(|| d.to_string());
    let tier = if get("tier", "quick") == "thorough" {
        Tier::Thorough
    } else {
        Tier::Quick
    };
    let seed: u64 = get("seed", "1").parse().expect("seed");
    let shard: u64 = get("shard", "0").parse().expect("shard");
    let nshards: u64 = get("nshards", "1").parse().expect("nshards");
    let only: Option<u64> = opts.get("only").map(|s| s.parse().expect("only"));
    let out = get("out", "/dev/null");
    let budget: f64 = get("budget", "1e9").parse().expect("budget");
    // panics inside the code under test are caught and judged; keep stderr quiet unless asked
    if std::env::var("VH_PANIC_TRACE").is_err() {
        std::panic::set_hook(Box::new(|_| {}));
    }
    let mut ctx = Ctx::new(&prop, tier, seed, shard, nshards, only, &out, budget);
    ctx.cli = opts.get("cli").cloned();
    ctx.scratch = get("scratch", "/tmp");
    if let Some(k) = opts.get("known") {
        ctx.known = k.split('|').filter(|s| !s.is_empty()).map(|s| s.to_string()).collect();
    }
    if !vh::props::run(&mut ctx) {
        eprintln!("unknown property {}", prop);
        std::process::exit(2);
    }
    if only.is_some() {
        // replay mode: print what happened
        for v in &ctx.violations {
            println!("{}", serde_json::to_string_pretty(v).unwrap());
        }
        println!(
            "replay: evaluations={} held={} inconclusive={} dontcare={} violations={}",
            ctx.evaluations,
            ctx.held,
            ctx.inconclusive,
            ctx.dontcare,
            ctx.violations.len()
        );
    }
}
