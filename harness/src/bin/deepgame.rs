//! Deep games for C05: `deepgame <depth> <threads> <full|sampled|external>`
//!
//! A centipede-like chain of `depth` alternating decisions is a perfectly ordinary game, only
//! deep. Everything here runs on a thread with a 4 GiB stack (reserved, not committed), so that the
//! recursive construction of the tree, `Game::from_root` and a *single-threaded* solve have all the
//! stack they want: the game is accepted and `solve(.., 1 thread)` returns. The question the driver
//! asks by running this program twice is whether the same solve with more threads returns as well
//! (C05: every thread count; C06: the thread count is purely a performance setting) - the parallel
//! solvers recurse on the pool's worker threads, whose stacks are not the caller's.
//!
//! Output: `DEEP-SOLVED depth=.. threads=.. method=.. bounds=..` on success, `DEEP-ERR ..` for a
//! returned error. A stack overflow aborts the process (SIGABRT, "has overflowed its stack" on
//! stderr): that is what the driver looks for. Own short-lived process because an abort cannot be
//! caught.
use vh::gen::{self, ParamSpec};
use vh::solve::{self, Cfg, Outcome, Prepared};

fn main() {
    let args: Vec<String> = std::env::args().collect();
    let depth: usize = args.get(1).and_then(|s| s.parse().ok()).unwrap_or(3000);
    let threads: usize = args.get(2).and_then(|s| s.parse().ok()).unwrap_or(1);
    let method = match args.get(3).map(|s| s.as_str()) {
        Some("sampled") => cfr::SolveMethod::Sampled,
        Some("external") => cfr::SolveMethod::External,
        _ => cfr::SolveMethod::Full,
    };
    let h = std::thread::Builder::new()
        .stack_size(4usize << 30)
        .spawn(move || {
            let tree = gen::centipede(depth);
            let line = match Prepared::new(&tree) {
                Err(e) => format!("DEEP-REJECTED {}", e),
                Ok(prep) => {
                    let cfg = Cfg { method, iters: 2, max_reg: 0.0, threads, params: ParamSpec::None };
                    match solve::run(&prep, &cfg, None) {
                        Outcome::Ok(o) => format!("DEEP-SOLVED depth={} threads={} method={} nodes={} bounds={:?}", depth, threads, gen::method_name(method), prep.flat.nodes.len(), o.bounds),
                        Outcome::Err(e) => format!("DEEP-ERR {:?}", e),
                        Outcome::Panic(m) => format!("DEEP-PANIC {}", m),
                    }
                }
            };
            println!("{}", line);
            // the tree and the game are dropped here, on the big stack
        })
        .expect("spawn big-stack thread");
    let _ = h.join();
}
