//! Running the shipped `cfr` binary (built without hooks) and reading what it prints.
use crate::files::{FileGame, Format};
use crate::tree::{Flat, Profile};
use serde_json::Value;
use std::io::Write;
use std::process::{Command, Stdio};
use std::time::{Duration, Instant};

#[derive(Debug, Clone)]
pub struct Run {
    pub status: Option<i32>,
    pub signal: bool,
    pub stdout: String,
    pub stderr: String,
    pub timed_out: bool,
    /// CPU seconds (user + system) the child had consumed when the wall-clock watchdog fired;
    /// 0 if it did not fire. Load independent, unlike the wall clock.
    pub cpu_s_at_timeout: f64,
}

/// Run the binary with `args`; `stdin` is fed if given. Wall-clock limit is a watchdog only.
pub fn run(cli: &str, args: &[String], stdin: Option<&str>, limit: Duration) -> Run {
    run_bytes(cli, args, stdin.map(|s| s.as_bytes()), limit)
}

/// [run] with arbitrary bytes on standard input (inputs that are not valid UTF-8)
pub fn run_bytes(cli: &str, args: &[String], stdin: Option<&[u8]>, limit: Duration) -> Run {
    let mut cmd = Command::new(cli);
    cmd.args(args).stdout(Stdio::piped()).stderr(Stdio::piped()).stdin(if stdin.is_some() { Stdio::piped() } else { Stdio::null() });
    cmd.env_remove("RUST_BACKTRACE");
    let mut child = match cmd.spawn() {
        Ok(c) => c,
        Err(e) => return Run { status: None, signal: false, stdout: String::new(), stderr: format!("spawn failed: {}", e), timed_out: false, cpu_s_at_timeout: 0.0 },
    };
    if let Some(text) = stdin {
        if let Some(mut si) = child.stdin.take() {
            let _ = si.write_all(text);
        }
    }
    let start = Instant::now();
    // output is small (one JSON object / one diagnostic), so waiting before reading cannot block
    // the child on a full pipe unless the output exceeds the pipe buffer; read in a thread anyway
    let mut out = child.stdout.take().unwrap();
    let mut err = child.stderr.take().unwrap();
    let to = std::thread::spawn(move || {
        let mut s = Vec::new();
        let _ = std::io::Read::read_to_end(&mut out, &mut s);
        String::from_utf8_lossy(&s).to_string()
    });
    let te = std::thread::spawn(move || {
        let mut s = Vec::new();
        let _ = std::io::Read::read_to_end(&mut err, &mut s);
        String::from_utf8_lossy(&s).to_string()
    });
    let mut timed_out = false;
    let mut cpu_s = 0.0f64;
    let status = loop {
        match child.try_wait() {
            Ok(Some(st)) => break Some(st),
            Ok(None) => {
                if start.elapsed() > limit {
                    // utime + stime of the child from /proc (fields 14 and 15 after the command name)
                    if let Ok(stat) = std::fs::read_to_string(format!("/proc/{}/stat", child.id())) {
                        if let Some(rest) = stat.rsplit(')').next() {
                            let f: Vec<&str> = rest.split_whitespace().collect();
                            if f.len() > 13 {
                                let ticks = f[11].parse::<f64>().unwrap_or(0.0) + f[12].parse::<f64>().unwrap_or(0.0);
                                cpu_s = ticks / 100.0;
                            }
                        }
                    }
                    let _ = child.kill();
                    let _ = child.wait();
                    timed_out = true;
                    break None;
                }
                std::thread::sleep(Duration::from_millis(2));
            }
            Err(_) => break None,
        }
    };
    let stdout = to.join().unwrap_or_default();
    let stderr = te.join().unwrap_or_default();
    #[cfg(unix)]
    let signal = {
        use std::os::unix::process::ExitStatusExt;
        status.map_or(false, |s| s.signal().is_some())
    };
    #[cfg(not(unix))]
    let signal = false;
    Run { status: status.and_then(|s| s.code()), signal, stdout, stderr, timed_out, cpu_s_at_timeout: cpu_s }
}

#[derive(Debug, Clone)]
pub struct Printed {
    pub regret: f64,
    pub util: [f64; 2],
    pub regrets: [f64; 2],
    pub profile: Profile,
}

/// Parse the printed result object against the semantic game. Err((signature, message)).
pub fn parse_output(text: &str, flat: &Flat) -> Result<Printed, (String, String)> {
    let v: Value = serde_json::from_str(text).map_err(|e| ("output-not-json".to_string(), format!("stdout is not one JSON value: {} (first 200 bytes: {:?})", e, &text[..text.len().min(200)])))?;
    let obj = v.as_object().ok_or_else(|| ("output-not-object".to_string(), "stdout is not a JSON object".to_string()))?;
    let numf = |k: &str| -> Result<f64, (String, String)> { obj.get(k).and_then(|x| x.as_f64()).ok_or_else(|| ("output-missing-field".to_string(), format!("field {:?} missing or not a number", k))) };
    let regret = numf("regret")?;
    let util = [numf("player_one_utility")?, numf("player_two_utility")?];
    let regrets = [numf("player_one_regret")?, numf("player_two_regret")?];
    let mut profile: Profile = [
        flat.info_actions[0].iter().map(|a| vec![0.0; a.len()]).collect(),
        flat.info_actions[1].iter().map(|a| vec![0.0; a.len()]).collect(),
    ];
    for (p, key) in ["player_one_strategy", "player_two_strategy"].iter().enumerate() {
        let strat = obj.get(*key).and_then(|x| x.as_object()).ok_or_else(|| ("output-missing-field".to_string(), format!("field {:?} missing or not an object", key)))?;
        let mut seen = vec![false; flat.info_names[p].len()];
        for (info, acts) in strat {
            let iid = *flat.name_to_info[p].get(info).ok_or_else(|| ("strategy-unknown-infoset".to_string(), format!("printed strategy of player {} names infoset {:?} which the file does not contain for that player", p + 1, info)))?;
            seen[iid] = true;
            let acts = acts.as_object().ok_or_else(|| ("strategy-malformed".to_string(), format!("infoset {:?} is not an object", info)))?;
            let mut tot = 0.0;
            for (a, q) in acts {
                let aid = flat.info_actions[p][iid].iter().position(|x| x == a).ok_or_else(|| ("strategy-unknown-action".to_string(), format!("printed strategy lists action {:?} in infoset {:?} which the file does not offer there", a, info)))?;
                let q = q.as_f64().ok_or_else(|| ("strategy-malformed".to_string(), format!("probability of {:?} in {:?} is not a number", a, info)))?;
                if !(q > 0.0) || !q.is_finite() {
                    return Err(("strategy-lists-non-positive-probability".to_string(), format!("action {:?} of infoset {:?} is printed with probability {}", a, info, q)));
                }
                profile[p][iid][aid] = q;
                tot += q;
            }
            if !((tot - 1.0).abs() <= 1e-9) {
                return Err(("strategy-not-a-distribution".to_string(), format!("printed probabilities of infoset {:?} of player {} sum to {}", info, p + 1, tot)));
            }
        }
        if let Some(m) = seen.iter().position(|s| !s) {
            return Err(("strategy-missing-infoset".to_string(), format!("printed strategy of player {} has no entry for infoset {:?}", p + 1, flat.info_names[p][m])));
        }
    }
    Ok(Printed { regret, util, regrets, profile })
}

pub fn write_game_file(dir: &str, stem: &str, fg: &FileGame, ext: Option<&str>) -> String {
    let ext = ext.unwrap_or(match fg.format {
        Format::Json => "json",
        Format::Efg => "efg",
    });
    let path = format!("{}/{}.{}", dir, stem, ext);
    std::fs::write(&path, &fg.text).expect("write game file");
    path
}
