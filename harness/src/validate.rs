//! O2: reference validator for the documented game contract. Returns the *set* of documented
//! rules a tree violates; definitions are order independent.
use crate::tree::HNode;
use std::collections::{BTreeSet, HashMap, HashSet};

#[derive(Clone, Copy, Debug, PartialEq, Eq, PartialOrd, Ord, Hash)]
pub enum Rule {
    EmptyChance,
    NonPositiveChance,
    ProbabilitiesNotEqual,
    ImperfectRecall,
    EmptyPlayer,
    ActionsNotEqual,
    ActionsNotUnique,
    NonFinitePayoff,
}

impl Rule {
    pub fn from_error(e: cfr::GameError) -> Option<Rule> {
        Some(match format!("{:?}", e).as_str() {
            "EmptyChance" => Rule::EmptyChance,
            "NonPositiveChance" => Rule::NonPositiveChance,
            "ProbabilitiesNotEqual" => Rule::ProbabilitiesNotEqual,
            "ImperfectRecall" => Rule::ImperfectRecall,
            "EmptyPlayer" => Rule::EmptyPlayer,
            "ActionsNotEqual" => Rule::ActionsNotEqual,
            "ActionsNotUnique" => Rule::ActionsNotUnique,
            "NonFinitePayoff" | "NonFinitePayoffs" | "InfinitePayoff" | "NotFinitePayoff" => {
                Rule::NonFinitePayoff
            }
            _ => return None,
        })
    }
}

#[derive(Clone, Debug, Default)]
pub struct Validation {
    pub violated: BTreeSet<Rule>,
    /// a chance-probability comparison fell in the band where "same probabilities" is a matter
    /// of rounding (relative difference between 1e-12 and 1e-6)
    pub prob_dontcare: bool,
    /// the only ProbabilitiesNotEqual witness is a single-outcome chance node sharing an infoset
    /// with a multi-outcome one
    pub single_outcome_share: bool,
    /// perfect-recall witnesses: (player, infoset) that were reached with different own histories
    pub recall_witness: Vec<(u8, String)>,
    /// infosets that have one action at one node and several at another
    pub single_multi_mix: Vec<(u8, String)>,
}

impl Validation {
    pub fn valid(&self) -> bool {
        self.violated.is_empty()
    }
}

struct Walk {
    v: Validation,
    /// (player, infoset) -> (actions, own history) of the first multi-action node seen
    infos: HashMap<(u8, String), (Vec<String>, Option<Vec<(String, String)>>)>,
    chance: HashMap<String, Vec<Vec<f64>>>,
}

impl Walk {
    fn go(&mut self, node: &HNode, hist: &mut [Vec<(String, String)>; 2]) {
        match node {
            HNode::Term(p) => {
                if !p.is_finite() {
                    self.v.violated.insert(Rule::NonFinitePayoff);
                }
            }
            HNode::Chance { info, outs } => {
                if outs.is_empty() {
                    self.v.violated.insert(Rule::EmptyChance);
                }
                let mut ok = true;
                for (w, _) in outs {
                    if !(*w > 0.0 && w.is_finite()) {
                        self.v.violated.insert(Rule::NonPositiveChance);
                        ok = false;
                    }
                }
                if ok && !outs.is_empty() {
                    if let Some(name) = info {
                        // (a sum of finite weights may overflow: such weights are scaled down first)
                        let plain: f64 = outs.iter().map(|(w, _)| w).sum();
                        let probs: Vec<f64> = if plain.is_finite() {
                            outs.iter().map(|(w, _)| w / plain).collect()
                        } else {
                            let down = 2.0 * outs.len() as f64;
                            let total: f64 = outs.iter().map(|(w, _)| w / down).sum();
                            outs.iter().map(|(w, _)| (w / down) / total).collect()
                        };
                        self.chance.entry(name.clone()).or_default().push(probs);
                    }
                }
                for (_, next) in outs {
                    self.go(next, hist);
                }
            }
            HNode::Player { p, info, acts } => {
                if acts.is_empty() {
                    self.v.violated.insert(Rule::EmptyPlayer);
                    return;
                }
                let names: Vec<String> = acts.iter().map(|(a, _)| a.clone()).collect();
                let distinct: HashSet<&String> = names.iter().collect();
                if distinct.len() != names.len() {
                    self.v.violated.insert(Rule::ActionsNotUnique);
                }
                let multi = acts.len() > 1;
                let key = (*p, info.clone());
                let my_hist = if multi {
                    Some(hist[*p as usize].clone())
                } else {
                    None
                };
                match self.infos.get_mut(&key) {
                    None => {
                        self.infos.insert(key, (names.clone(), my_hist));
                    }
                    Some((first_names, first_hist)) => {
                        if *first_names != names {
                            self.v.violated.insert(Rule::ActionsNotEqual);
                            if (first_names.len() == 1) != (names.len() == 1) {
                                self.v.single_multi_mix.push((*p, info.clone()));
                            }
                        }
                        if let Some(mine) = my_hist {
                            match first_hist {
                                None => *first_hist = Some(mine),
                                Some(theirs) => {
                                    if *theirs != mine {
                                        self.v.violated.insert(Rule::ImperfectRecall);
                                        self.v.recall_witness.push((*p, info.clone()));
                                    }
                                }
                            }
                        }
                    }
                }
                for (a, next) in acts {
                    if multi {
                        hist[*p as usize].push((info.clone(), a.clone()));
                    }
                    self.go(next, hist);
                    if multi {
                        hist[*p as usize].pop();
                    }
                }
            }
        }
    }
}

pub fn validate(tree: &HNode) -> Validation {
    let mut walk = Walk {
        v: Validation::default(),
        infos: HashMap::new(),
        chance: HashMap::new(),
    };
    let mut hist: [Vec<(String, String)>; 2] = Default::default();
    walk.go(tree, &mut hist);
    // chance infosets
    let mut hard = false;
    let mut soft_single = false;
    let mut band = false;
    for vecs in walk.chance.values() {
        for other in &vecs[1..] {
            let first = &vecs[0];
            if first.len() != other.len() {
                if first.len() == 1 || other.len() == 1 {
                    soft_single = true;
                } else {
                    hard = true;
                }
                continue;
            }
            for (a, b) in first.iter().zip(other.iter()) {
                let rel = (a - b).abs() / a.abs().max(b.abs());
                if rel >= 1e-6 {
                    hard = true;
                } else if rel > 1e-12 {
                    band = true;
                }
            }
        }
        // every pair, not only against the first (lengths equal here unless flagged)
        for i in 1..vecs.len() {
            for j in i + 1..vecs.len() {
                if vecs[i].len() == vecs[j].len() {
                    for (a, b) in vecs[i].iter().zip(vecs[j].iter()) {
                        let rel = (a - b).abs() / a.abs().max(b.abs());
                        if rel >= 1e-6 {
                            hard = true;
                        } else if rel > 1e-12 {
                            band = true;
                        }
                    }
                } else if vecs[i].len() == 1 || vecs[j].len() == 1 {
                    soft_single = true;
                } else {
                    hard = true;
                }
            }
        }
    }
    if hard || soft_single {
        walk.v.violated.insert(Rule::ProbabilitiesNotEqual);
    }
    walk.v.single_outcome_share = soft_single && !hard;
    walk.v.prob_dontcare = band && !hard;
    walk.v
}
