//! Running Game::solve under the hooks and collecting what the monitors need.
use crate::bridge::G;
use crate::gen::ParamSpec;
use crate::report::catch;
use crate::spec::{self, Align, Checker, Method, Params};
use crate::tree::{Flat, HNode, Profile};
use cfr::verif::{self, Config, Dump, Event, Sampling};
use cfr::{PlayerNum, SolveMethod};

pub struct Prepared {
    pub tree: HNode,
    pub flat: Flat,
    /// boxed so that node addresses (the root is stored inline) stay valid
    pub game: Box<G>,
    pub dump: Dump,
    pub align: Align,
}

impl Prepared {
    /// Err(message) if the library rejects the tree or the compact tree differs from the input
    pub fn new(tree: &HNode) -> Result<Prepared, String> {
        let game = Box::new(crate::bridge::build(tree).map_err(|e| format!("from_root: {:?}", e))?);
        let flat = Flat::new(tree);
        let dump = game.verif_dump();
        let align = spec::align(&flat, &dump).map_err(|e| format!("compact tree differs from input: {}", e))?;
        Ok(Prepared { tree: tree.clone(), flat, game, dump, align })
    }
}

#[derive(Clone, Copy, Debug)]
pub struct Cfg {
    pub method: SolveMethod,
    pub iters: u64,
    pub max_reg: f64,
    pub threads: usize,
    pub params: ParamSpec,
}

impl Cfg {
    pub fn describe(&self) -> String {
        format!("solve({}, T={}, r={}, threads={}, {})", crate::gen::method_name(self.method), self.iters, self.max_reg, self.threads, self.params.name())
    }

    pub fn spec_params(&self) -> Params {
        let (alpha, beta, gamma, weight) = self.params.documented();
        Params { alpha, beta, gamma, weight }
    }
}

pub struct Out {
    /// stored probabilities per player per compact infoset index
    pub dense: [Vec<Vec<f64>>; 2],
    /// the same as a profile on the harness tree (single-action infosets = 1)
    pub profile: Profile,
    pub bounds: [f64; 2],
    pub total_bound: f64,
    pub events: Vec<Event>,
}

pub enum Outcome {
    Ok(Box<Out>),
    Err(cfr::SolveError),
    Panic(String),
}

pub fn production() -> Config {
    Config { flags: 0, sampling: Sampling::Production, jitter_seed: 0 }
}

pub fn run(prep: &Prepared, cfg: &Cfg, hook: Option<Config>) -> Outcome {
    let hooked = hook.is_some();
    if let Some(h) = hook {
        verif::start(h);
    }
    let res = catch(|| prep.game.solve(cfg.method, cfg.iters, cfg.max_reg, cfg.threads, cfg.params.to_params()));
    let events = if hooked { verif::finish() } else { Vec::new() };
    match res {
        Err(msg) => Outcome::Panic(msg),
        Ok(Err(e)) => Outcome::Err(e),
        Ok(Ok((strat, bound))) => {
            let probs = strat.verif_probs();
            let mut dense: [Vec<Vec<f64>>; 2] = Default::default();
            let mut profile: Profile = [
                prep.flat.info_actions[0].iter().map(|a| vec![1.0; a.len()]).collect(),
                prep.flat.info_actions[1].iter().map(|a| vec![1.0; a.len()]).collect(),
            ];
            for p in 0..2 {
                let mut off = 0;
                for (di, n) in prep.dump.num_actions[p].iter().enumerate() {
                    let v = probs[p][off..off + n].to_vec();
                    profile[p][prep.align.info[p][di]] = v.clone();
                    dense[p].push(v);
                    off += n;
                }
            }
            Outcome::Ok(Box::new(Out {
                dense,
                profile,
                bounds: [bound.player_regret_bound(PlayerNum::One), bound.player_regret_bound(PlayerNum::Two)],
                total_bound: bound.regret_bound(),
                events,
            }))
        }
    }
}

/// Run the O3 step checker over a logged solve. Ok(stats) or Err((signature, message)).
pub fn step_check(prep: &Prepared, cfg: &Cfg, out: &Out, with_visits: bool) -> Result<spec::Stats, (String, String)> {
    let passes = spec::group(&out.events).map_err(|e| ("log:malformed".to_string(), e))?;
    let mut ck = Checker::new(&prep.flat, &prep.align, Method::of(cfg.method), cfg.spec_params());
    ck.with_visits = with_visits;
    ck.check(&passes, &out.dense, out.bounds, cfg.iters, cfg.max_reg)?;
    Ok(ck.stats)
}

pub fn same_within(a: &Out, b: &Out, tol: f64, scale: f64) -> Option<String> {
    for p in 0..2 {
        for (di, (x, y)) in a.dense[p].iter().zip(b.dense[p].iter()).enumerate() {
            for (u, v) in x.iter().zip(y.iter()) {
                if !((u - v).abs() <= tol) {
                    return Some(format!("player {} infoset {}: {:?} vs {:?}", p + 1, di, x, y));
                }
            }
        }
        let (u, v) = (a.bounds[p], b.bounds[p]);
        if !(u == v || (u - v).abs() <= tol * scale.max(u.abs())) {
            return Some(format!("bound of player {}: {} vs {}", p + 1, u, v));
        }
    }
    None
}

pub const ALL_LOGS: u32 = verif::LOG_DRAW | verif::LOG_VISIT | verif::LOG_STATE | verif::LOG_PASS;
