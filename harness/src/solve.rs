//! Running Game::solve under the hooks and collecting what the monitors need.
use crate::bridge::G;
use crate::gen::ParamSpec;
use crate::report::catch;
use crate::spec::{self, Align, Checker, Method, Params};
use crate::tree::{Flat, HNode, Profile};
use cfr::verif::{self, Config, Dump, Event, Sampling};
use cfr::{PlayerNum, SolveMethod};

pub struct Prepared {
    pub tree: HNode,
    pub flat: Flat,
    /// boxed so that node addresses (the root is stored inline) stay valid
    pub game: Box<G>,
    pub dump: Dump,
    pub align: Align,
}

impl Prepared {
    /// Err(message) if the library rejects the tree or the compact tree differs from the input
    pub fn new(tree: &HNode) -> Result<Prepared, String> {
        let game = Box::new(crate::bridge::build(tree).map_err(|e| format!("from_root: {:?}", e))?);
        let flat = Flat::new(tree);
        let dump = game.verif_dump();
        let align = spec::align(&flat, &dump).map_err(|e| format!("compact tree differs from input: {}", e))?;
        Ok(Prepared { tree: tree.clone(), flat, game, dump, align })
    }
}

#[derive(Clone, Copy, Debug)]
pub struct Cfg {
    pub method: SolveMethod,
    pub iters: u64,
    pub max_reg: f64,
    pub threads: usize,
    pub params: ParamSpec,
}

impl Cfg {
    pub fn describe(&self) -> String {
        format!("solve({}, T={}, r={}, threads={}, {})", crate::gen::method_name(self.method), self.iters, self.max_reg, self.threads, self.params.name())
    }

    pub fn spec_params(&self) -> Params {
        let (alpha, beta, gamma, weight) = self.params.documented();
        Params { alpha, beta, gamma, weight }
    }
}

pub struct Out {
    /// stored probabilities per player per compact infoset index
    pub dense: [Vec<Vec<f64>>; 2],
    /// the same as a profile on the harness tree (single-action infosets = 1)
    pub profile: Profile,
    pub bounds: [f64; 2],
    pub total_bound: f64,
    pub events: Vec<Event>,
}

pub enum Outcome {
    Ok(Box<Out>),
    Err(cfr::SolveError),
    Panic(String),
}

pub fn production() -> Config {
    Config { flags: 0, sampling: Sampling::Production, jitter_seed: 0 }
}

/// Which expansions of [crate::tree::HNode::frontier_tasks] model a pass of the given method
pub fn frontier_modes(method: SolveMethod) -> &'static [crate::tree::Frontier] {
    use crate::tree::Frontier;
    match method {
        SolveMethod::Full => &[Frontier::Full],
        SolveMethod::Sampled => &[Frontier::Sampled],
        _ => &[Frontier::External(0), Frontier::External(1)],
    }
}

pub fn run(prep: &Prepared, cfg: &Cfg, hook: Option<Config>) -> Outcome {
    let hooked = hook.is_some();
    if let Some(h) = hook {
        verif::start(h);
    }
    let res = catch(|| prep.game.solve(cfg.method, cfg.iters, cfg.max_reg, cfg.threads, cfg.params.to_params()));
    let events = if hooked { verif::finish() } else { Vec::new() };
    match res {
        Err(msg) => Outcome::Panic(msg),
        Ok(Err(e)) => Outcome::Err(e),
        Ok(Ok((strat, bound))) => {
            let probs = strat.verif_probs();
            let mut dense: [Vec<Vec<f64>>; 2] = Default::default();
            let mut profile: Profile = [
                prep.flat.info_actions[0].iter().map(|a| vec![1.0; a.len()]).collect(),
                prep.flat.info_actions[1].iter().map(|a| vec![1.0; a.len()]).collect(),
            ];
            for p in 0..2 {
                let mut off = 0;
                for (di, n) in prep.dump.num_actions[p].iter().enumerate() {
                    let v = probs[p][off..off + n].to_vec();
                    profile[p][prep.align.info[p][di]] = v.clone();
                    dense[p].push(v);
                    off += n;
                }
            }
            Outcome::Ok(Box::new(Out {
                dense,
                profile,
                bounds: [bound.player_regret_bound(PlayerNum::One), bound.player_regret_bound(PlayerNum::Two)],
                total_bound: bound.regret_bound(),
                events,
            }))
        }
    }
}

/// Run the O3 step checker over a logged solve. Ok(stats) or Err((signature, message)).
pub fn step_check(prep: &Prepared, cfg: &Cfg, out: &Out, with_visits: bool) -> Result<spec::Stats, (String, String)> {
    let passes = spec::group(&out.events).map_err(|e| ("log:malformed".to_string(), e))?;
    let mut ck = Checker::new(&prep.flat, &prep.align, Method::of(cfg.method), cfg.spec_params());
    ck.with_visits = with_visits;
    ck.check(&passes, &out.dense, out.bounds, cfg.iters, cfg.max_reg)?;
    Ok(ck.stats)
}

pub fn same_within(a: &Out, b: &Out, tol: f64, scale: f64) -> Option<String> {
    for p in 0..2 {
        for (di, (x, y)) in a.dense[p].iter().zip(b.dense[p].iter()).enumerate() {
            for (u, v) in x.iter().zip(y.iter()) {
                if !((u - v).abs() <= tol) {
                    return Some(format!("player {} infoset {}: {:?} vs {:?}", p + 1, di, x, y));
                }
            }
        }
        let (u, v) = (a.bounds[p], b.bounds[p]);
        if !(u == v || (u - v).abs() <= tol * scale.max(u.abs())) {
            return Some(format!("bound of player {}: {} vs {}", p + 1, u, v));
        }
    }
    None
}

/// Tolerance for one probability of an infoset of the *returned average strategy* when two runs
/// that should agree "within rounding" are compared. Both runs are logged, so the amplification
/// of rounding noise is measured, not guessed:
///  * regret matching divides by the sum of positive regrets: a relative regret noise of
///    1e-14 x `payoff_cond` (payoff magnitude over the magnitude of payoff differences; 1 if the
///    payoffs are unchanged) becomes a strategy perturbation of that noise / `margin`, where
///    `margin` is the smallest relative distance of any regret-matching step of either trace from
///    its discontinuity (below 1e-9 the comparison is inconclusive altogether);
///  * the returned average strategy is cumulative strategy / its mass: for an infoset its owner
///    (almost) never reaches, a reach of 1e-13 that is exactly 0 in the other run is amplified by
///    `cond` = total weight / accumulated mass (`Stats::avg_cond`).
/// The floor is 1e-9 as everywhere else.
pub fn avg_tol(cond: f64, payoff_cond: f64, margin: f64) -> f64 {
    let t = 1e-9 + 1e-14 * payoff_cond.max(1.0) * cond.max(1.0) / margin.min(1.0).max(1e-300);
    if t.is_nan() {
        f64::INFINITY
    } else {
        t
    }
}

/// like `same_within` with the conditioning-aware tolerance for strategies; returns the
/// description of the first difference and the number of infosets whose tolerance exceeded 1e-3
/// (effectively not compared)
pub fn same_within_cond(a: &Out, b: &Out, sa: &spec::Stats, sb: &spec::Stats, scale: f64, payoff_cond: f64) -> (Option<String>, u64) {
    let mut skipped = 0;
    for p in 0..2 {
        for (di, (x, y)) in a.dense[p].iter().zip(b.dense[p].iter()).enumerate() {
            let cond = sa.avg_cond[p].get(di).copied().unwrap_or(1.0).max(sb.avg_cond[p].get(di).copied().unwrap_or(1.0));
            let tol = avg_tol(cond, payoff_cond, sa.min_margin.min(sb.min_margin));
            if tol > 1e-3 {
                skipped += 1;
            }
            for (u, v) in x.iter().zip(y.iter()) {
                if !((u - v).abs() <= tol) {
                    return (Some(format!("player {} infoset {}: {:?} vs {:?} (conditioning {:e}, tolerance {:e})", p + 1, di, x, y, cond, tol)), skipped);
                }
            }
        }
        let (u, v) = (a.bounds[p], b.bounds[p]);
        if !(u == v || (u - v).abs() <= 1e-9 * scale.max(u.abs())) {
            return (Some(format!("bound of player {}: {} vs {}", p + 1, u, v)), skipped);
        }
    }
    (None, skipped)
}

/// How the difference between two logged runs of one configuration develops over the state
/// snapshots (hook H3): Some(first snapshot index at which it exceeds the noise floor) if the two
/// logs correspond snapshot by snapshot and the difference *grows smoothly* - no snapshot shows
/// more than `growth` times the largest difference seen before it (or the noise floor 1e-10,
/// whichever is larger). None otherwise (a jump, or logs that do not correspond).
///
/// Purpose: a k-thread run adds rounding noise where the 1-thread run is exact (the regret of the
/// action a pure strategy plays is exactly 0 in one summation order and 1e-13 in another). Dynamics
/// that amplify differences by a factor of two or three per iteration (undamped regret matching:
/// alpha = -1000) turn that into a macroscopic difference after fifty iterations although every
/// single step of both runs is a correct update within rounding (which the step checker verifies
/// separately). A defect - a lost update, a skipped node, a stale payoff - shows as a jump: a
/// difference of the size of an increment appearing within one snapshot out of rounding noise.
pub fn smooth_divergence(a: &Out, b: &Out, scale: f64, growth: f64) -> Option<usize> {
    fn states(o: &Out) -> Vec<(u64, u8, u8, &Vec<verif::InfoState>)> {
        o.events.iter().filter_map(|e| if let Event::State { pass, stage, player, infosets } = e { Some((*pass, *stage, *player, infosets)) } else { None }).collect()
    }
    let (sa, sb) = (states(a), states(b));
    if sa.is_empty() || sa.len() != sb.len() {
        return None;
    }
    let rel = |x: f64, y: f64, base: f64| (x - y).abs() / base.max(x.abs()).max(y.abs());
    let mut seen = 0.0f64;
    let mut first = None;
    for (i, (x, y)) in sa.iter().zip(sb.iter()).enumerate() {
        if (x.0, x.1, x.2) != (y.0, y.1, y.2) || x.3.len() != y.3.len() {
            return None;
        }
        let mut d = 0.0f64;
        for (u, v) in x.3.iter().zip(y.3.iter()) {
            if u.cum_regret.len() != v.cum_regret.len() {
                return None;
            }
            for k in 0..u.cum_regret.len() {
                d = d.max(rel(u.cum_regret[k], v.cum_regret[k], scale.max(1e-300))).max((u.strat[k] - v.strat[k]).abs()).max(rel(u.cum_strat[k], v.cum_strat[k], 1.0));
            }
        }
        if !(d <= (1e-10f64).max(growth * seen)) {
            return None;
        }
        if d > 1e-10 && first.is_none() {
            first = Some(i);
        }
        seen = seen.max(d);
    }
    first
}

/// per flat infoset of `prep`: the measured conditioning of its returned average strategy
pub fn cond_by_flat_infoset(prep: &Prepared, st: &spec::Stats) -> [Vec<f64>; 2] {
    [0, 1].map(|p| (0..prep.flat.info_actions[p].len()).map(|i| prep.align.info_rev[p][i].and_then(|di| st.avg_cond[p].get(di).copied()).unwrap_or(1.0)).collect())
}

/// compare two profiles on the same flat tree with the conditioning-aware tolerance; returns the
/// first offending (player, infoset, difference, tolerance)
pub fn profiles_differ(a: &Profile, b: &Profile, cond: &[Vec<f64>; 2], payoff_cond: f64, margin: f64) -> Option<(usize, usize, f64, f64)> {
    for p in 0..2 {
        for (i, (x, y)) in a[p].iter().zip(b[p].iter()).enumerate() {
            let tol = avg_tol(cond[p].get(i).copied().unwrap_or(1.0), payoff_cond, margin);
            let d = x.iter().zip(y.iter()).map(|(u, v)| (u - v).abs()).fold(0.0, f64::max);
            if !(d <= tol) {
                return Some((p, i, d, tol));
            }
        }
    }
    None
}

/// Stability probe for "equal within rounding" judgments: solves `tree` again (same
/// configuration, same pinned sampling) with every payoff perturbed by an independent relative
/// 1e-14..1e-13 and returns the largest change of any returned probability or (relative) bound
/// against `base`. Regret dynamics can be unstable: on a symmetric game an asymmetry of 1e-16
/// grows by an order of magnitude per iteration. If a rounding-sized perturbation of the input
/// moves the output about as much as the difference under judgment, that difference says nothing
/// about the code.
pub fn stability_probe(tree: &HNode, cfg: &Cfg, sampling: &dyn Fn() -> Sampling, base: &Out, salt: u64) -> f64 {
    use crate::rng::{mix, Rng};
    fn perturb(n: &HNode, r: &mut Rng) -> HNode {
        match n {
            HNode::Term(p) => HNode::Term(p * (1.0 + (if r.chance(0.5) { 1.0 } else { -1.0 }) * (1e-14 + 9e-14 * r.unit()))),
            HNode::Chance { info, outs } => HNode::Chance { info: info.clone(), outs: outs.iter().map(|(w, k)| (*w, perturb(k, r))).collect() },
            HNode::Player { p, info, acts } => HNode::Player { p: *p, info: info.clone(), acts: acts.iter().map(|(a, k)| (a.clone(), perturb(k, r))).collect() },
        }
    }
    let mut worst = 0.0f64;
    for k in 0..2u64 {
        let mut prng = Rng::new(mix(salt ^ 0x9e37 ^ k));
        let ptree = perturb(tree, &mut prng);
        let Ok(pprep) = Prepared::new(&ptree) else { continue };
        let scale = pprep.flat.max_abs_payoff().max(1e-300);
        if let Outcome::Ok(pa) = run(&pprep, cfg, Some(Config { flags: 0, sampling: sampling(), jitter_seed: 0 })) {
            for p in 0..2 {
                for (x, y) in pa.dense[p].iter().zip(base.dense[p].iter()) {
                    for (u, v) in x.iter().zip(y.iter()) {
                        let d = (u - v).abs();
                        worst = worst.max(if d.is_nan() { f64::INFINITY } else { d });
                    }
                }
                worst = worst.max((pa.bounds[p] - base.bounds[p]).abs() / scale);
            }
        }
    }
    worst
}

/// the largest difference of any probability, and of the bounds relative to `scale`
pub fn max_difference(a: &Out, b: &Out, scale: f64) -> f64 {
    let mut w = 0.0f64;
    for p in 0..2 {
        for (x, y) in a.dense[p].iter().zip(b.dense[p].iter()) {
            for (u, v) in x.iter().zip(y.iter()) {
                w = w.max((u - v).abs());
            }
        }
        w = w.max((a.bounds[p] - b.bounds[p]).abs() / scale.max(1e-300));
    }
    w
}

pub const ALL_LOGS: u32 = verif::LOG_DRAW | verif::LOG_VISIT | verif::LOG_STATE | verif::LOG_PASS;
